"""C07  Every stored or returned particle is a coherent (u, x, logL, blob) record.

  C07.a  joint moves (A3): at every record-move site (statements that move rows
         of >= 2 particle arrays with one index) all of u, x, logl -- and blobs
         whenever the function handles blobs -- are moved, with the same index
         (name + reaching definition), same source index, and matching
         source/target fields
  C07.b  derivation chain: x is the prior-transform image of exactly the u that
         is stored, (logl, blobs) the likelihood image of exactly that x
  C07.c  cube membership: every proposal that can be written into u has passed
         the boundary map and the bounds predicate (or is masked by it)
  C07.d  producer/consumer agreement between the kernel's return tuple and the
         mutation step's unpacking/storage (u, x, logl, blobs positions)
  C07.e  whole-record commit: the commit loop appends every history key
"""
from __future__ import annotations

import ast
from typing import Dict, List, Optional, Set, Tuple

from ..cfg import cfg_of
from ..dataflow import expr_leaves, flow_of, select_path
from ..engine import Context, Reporter
from ..fresh import fresh_copy_source
from ..model import AnalysisError, ClassInfo, FuncInfo, dotted, norm_text, walk_no_nested
from ..records import PARTICLE_FIELDS, Site, Tagger, discover_sites, name_tag
from ..util import call_arg, calls_in, calls_in_node, conds_holding_at, is_none_test, split_cond, unparse

PROP = "C07"
EXPLANATION = (
    "Record-coherence analysis of the parallel particle arrays: record-move sites are discovered on the live tree "
    "(groups of sibling subscript statements sharing one index definition); each must move all of u, x, logl and, "
    "where the function handles blobs, blobs, with one index and matching fields. Backward slices decide that x is "
    "the prior-transform image of the stored u and (logl, blobs) the likelihood image of that x; a dominance check "
    "decides that only boundary-mapped, bounds-checked proposals can be written into u; tuple positions of the "
    "kernel's result agree with the keys they are stored under; the history commit covers every record key. "
    "Decides code shape on all paths; determinism of user callables is assumed."
)
ASSUMPTIONS = [
    "user prior_transform / log_likelihood are deterministic functions of their argument",
    "field identity of an array is derived from state keys, role calls (prior transform, likelihood wrapper) and variable names",
]

REQUIRED = ("u", "x", "logl")


def all_sites(ctx: Context) -> List[Site]:
    out = []
    for fi in ctx.prog.functions.values():
        for s in discover_sites(ctx, fi):
            pf = s.fields() & set(PARTICLE_FIELDS)
            if len(pf) >= 2:
                out.append(s)
    return out


def function_handles_blobs(fi: FuncInfo) -> bool:
    for n in walk_no_nested(fi.node):
        if isinstance(n, ast.Name) and name_tag(n.id) == "blobs":
            return True
        if isinstance(n, ast.Attribute) and name_tag(n.attr) == "blobs":
            return True
        if isinstance(n, ast.Constant) and n.value == "blobs":
            return True
    return False


def rule_a(ctx: Context, R: Reporter):
    sites = all_sites(ctx)
    R.floor("C07.a", "record-move sites", len(sites), 3)
    R.analysed["C07.a:sites"] = [f"{s.key()} fields={sorted(s.fields())}" for s in sites]
    n_field_obl = 0
    for s in sites:
        fields = s.fields()
        need = list(REQUIRED) + (["blobs"] if function_handles_blobs(s.func) else [])
        first = s.moves[0]
        for f in need:
            n_field_obl += 1
            R.check(
                "C07.a", f"field '{f}' is moved with index `{s.index_name}` at site {s.key()}", f in fields, s.func, first.stmt,
                msg=f"{s.func.short}: rows of {sorted(fields)} are moved with `{s.index_name}` but '{f}' is not: particles become incoherent records "
                    f"(site statements: {[m.text[:40] for m in s.moves]})",
                key=f"site:{s.key()}:{f}",
            )
        for m in s.moves:
            if m.dst_tag and m.src_tag and m.dst_tag != m.src_tag and m.dst_tag in PARTICLE_FIELDS and m.src_tag in PARTICLE_FIELDS:
                R.check("C07.a", "source and target of a row move are the same field", False, s.func, m.stmt,
                        msg=f"{s.func.short}: `{m.text[:70]}` moves field '{m.src_tag}' into '{m.dst_tag}'")
        # the blobs move runs when blobs exist: its guard is not inverted
        sflow = flow_of(s.func.node)
        for m in s.moves:
            if "blobs" not in (m.dst_tag, m.src_tag):
                continue
            for (t, pol) in conds_holding_at(sflow.cfg, m.node):
                for (a, p) in split_cond(t, pol):
                    txt = norm_text(a)
                    inverted = False
                    if isinstance(a, ast.Compare) and len(a.ops) == 1 and isinstance(a.comparators[0], ast.Constant) and a.comparators[0].value is None and "blob" in norm_text(a.left):
                        inverted = (isinstance(a.ops[0], ast.IsNot) and p is False) or (isinstance(a.ops[0], ast.Is) and p is True)
                    elif "have_blobs" in txt and isinstance(a, (ast.Name, ast.Attribute)):
                        inverted = p is False
                    if inverted:
                        R.check("C07.a", "the blobs of a record move when blobs exist", False, s.func, m.stmt,
                                msg=f"{s.func.short}: `{m.text[:50]}` is reached only when `{unparse(a)}` is {p} (inverted guard): with blobs enabled the blobs keep their old rows while "
                                    f"u/x/logl move", key=f"blobs-guard-inverted:{s.key()}")
        # one source index for all row updates of the site
        src_idx = {m.src_index for m in s.moves if m.dst_index is not None and m.src_index is not None}
        if len(src_idx) > 1:
            odd = [m for m in s.moves if m.src_index is not None]
            R.check("C07.a", "all fields of a row update read the same source rows", False, s.func, odd[-1].stmt,
                    msg=f"{s.func.short}: row update with target index `{s.index_name}` reads sources with different indices {sorted(i[0] for i in src_idx)}",
                    key=f"src-index:{s.key()}")
        else:
            R.check("C07.a", f"single source index at site {s.key()}", True, s.func, first.stmt, key=f"src-index:{s.key()}")
    # a particle field subscripted by a *different* index inside a function that has a site (split index)
    for s in sites:
        flow = flow_of(s.func.node)
        site_stmt_ids = {id(m.stmt) for m in s.moves}
        others = [o for o in discover_sites(ctx, s.func) if o.index != s.index]
        for o in others:
            of = o.fields() & set(PARTICLE_FIELDS)
            if len(of) == 1 and not (of & s.fields()) and o.index_name != s.index_name:
                m = o.moves[0]
                # only when it is the field missing from the main site (already reported there) -> give the precise construct
                R.check("C07.a", "a particle field is not moved with a private index", False, s.func, m.stmt,
                        msg=f"{s.func.short}: '{next(iter(of))}' is moved with `{o.index_name}` while {sorted(s.fields())} are moved with `{s.index_name}`",
                        key=f"split-index:{s.key()}:{next(iter(of))}")
    # a row-to-row copy between two particle records that carries one field only (x_prime[m] = self.x[m]): the
    # record that receives the rows is no longer the transform / likelihood of its own u
    in_sites = {id(m_.stmt) for s_ in sites for m_ in s_.moves}
    for fi in {s_.func.qualname: s_.func for s_ in sites}.values():
        for o in discover_sites(ctx, fi):
            pf = o.fields() & set(PARTICLE_FIELDS)
            if len(pf) != 1:
                continue
            for m_ in o.moves:
                if id(m_.stmt) in in_sites:
                    continue
                if m_.src_tag in PARTICLE_FIELDS and m_.dst_tag == m_.src_tag and m_.src_index is not None and m_.dst_index is not None:
                    R.check("C07.a", "rows are copied between particle records as whole records", False, fi, m_.stmt,
                            msg=f"{fi.short}: `{m_.text[:70]}` copies rows of '{m_.src_tag}' alone from one particle record into another (index `{o.index_name}`): the receiving record keeps "
                                f"its own {sorted(set(REQUIRED) - pf)} for those rows, so its x is no longer the prior transform of its u / its logL no longer the likelihood at its x",
                            key=f"partial-row-copy:{fi.short}:{m_.src_tag}")
    # state writes of the blobs: not under an inverted have-blobs guard
    for a in ctx.state.accesses:
        if a.mode != "write" or a.key != "blobs" or a.func is None:
            continue
        fl = flow_of(a.func.node)
        wn = fl.node_containing(a.call)
        if wn is None:
            continue
        # a literal None written while blobs are disabled is fine
        if isinstance(a.value, ast.Constant) and a.value.value is None:
            continue
        for (t, pol) in conds_holding_at(fl.cfg, wn):
            for (at_, p) in split_cond(t, pol):
                txt = norm_text(at_)
                inverted = False
                if isinstance(at_, ast.Compare) and len(at_.ops) == 1 and isinstance(at_.comparators[0], ast.Constant) and at_.comparators[0].value is None and "blob" in norm_text(at_.left):
                    inverted = (isinstance(at_.ops[0], ast.IsNot) and p is False) or (isinstance(at_.ops[0], ast.Is) and p is True)
                elif "have_blobs" in txt and isinstance(at_, (ast.Name, ast.Attribute)):
                    inverted = p is False
                if inverted:
                    R.check("C07.a", "blobs are stored when blobs exist", False, a.func, a.call,
                            msg=f"{a.func.short}: `{unparse(a.call)[:50]}` runs only when `{unparse(at_)}` is {p} (inverted guard): with blobs enabled the stored blobs are left over "
                                f"from before the step", key=f"blobs-write-guard-inverted:{a.func.short}")
    R.analysed["C07.a:field_obligations"] = n_field_obl


# ------------------------------------------------------------------ C07.h
def rule_h(ctx: Context, R: Reporter):
    """Whole-array rebinding of the record held by an object: a block that
    re-binds one of `self.u / self.x / self.logl / self.blobs` (outside the
    constructor) re-binds all of them -- the blobs possibly under a `blobs is not
    None` / have-blobs guard in the same block.  (Row-wise updates are C07.a.)"""
    n = 0
    n_cls = 0
    for cls in ctx.prog.classes.values():
        init = cls.methods.get("__init__")
        if init is None:
            continue
        held = set()
        for x in walk_no_nested(init.node):
            if isinstance(x, ast.Assign):
                for t in x.targets:
                    if isinstance(t, ast.Attribute) and isinstance(t.value, ast.Name) and t.value.id == "self" and t.attr in PARTICLE_FIELDS:
                        held.add(t.attr)
        if not {"u", "x", "logl"} <= held:
            continue
        n_cls += 1
        need = {"u", "x", "logl"} | ({"blobs"} if "blobs" in held else set())
        for m in ctx.prog.functions.values():
            if m.cls is None or not (m.cls is cls or ctx.prog.is_subclass(m.cls, cls)) or m.name == "__init__":
                continue

            def rebinds(stmts, deep):
                out = {}
                for st in stmts:
                    if isinstance(st, ast.Assign):
                        for t in st.targets:
                            ts = t.elts if isinstance(t, (ast.Tuple, ast.List)) else [t]
                            for t1 in ts:
                                if isinstance(t1, ast.Attribute) and isinstance(t1.value, ast.Name) and t1.value.id == "self" and t1.attr in need:
                                    out.setdefault(t1.attr, st)
                    elif deep and isinstance(st, ast.If) and "blobs" in norm_text(st.test):
                        for k, v in rebinds(st.body, False).items():
                            out.setdefault(k, v)
                return out

            def blocks(node):
                for x in walk_no_nested(node):
                    for fld in ("body", "orelse", "finalbody"):
                        b = getattr(x, fld, None)
                        if isinstance(b, list) and b and isinstance(b[0], ast.stmt):
                            yield b
                    if isinstance(x, ast.Try):
                        for h in x.handlers:
                            yield h.body

            for b in blocks(m.node):
                rb = rebinds(b, True)
                if not rb:
                    continue
                n += 1
                missing = sorted(need - set(rb))
                first = next(iter(rb.values()))
                R.check("C07.h", f"{m.short}: a block re-binding part of the held record re-binds all of it", not missing, m, first,
                        msg=f"{m.short}: `{unparse(first)[:60]}` (and {sorted(rb)}) replace the held arrays wholesale but {missing} keep their old rows: every particle of the "
                            f"object pairs new coordinates / likelihoods with the stale {missing}", key=f"rebind:{m.short}:{','.join(sorted(rb))}")
    R.floor("C07.h", "classes holding a particle record", n_cls, 1)
    R.analysed["C07.h:rebinding_blocks"] = n
    if n == 0:
        R.check("C07.h", "no whole-array rebinding of a held record outside constructors", True, None, None, key="rebind-none", loc="tempest/")


# ------------------------------------------------------------------ C07.b
def kernel_base(ctx: Context) -> ClassInfo:
    for c in ctx.prog.classes.values():
        if "_propose" in c.methods and c.methods["_propose"].is_abstract:
            return c
    raise AnalysisError("C07: kernel base class (abstract _propose) not found")


def rule_b(ctx: Context, R: Reporter):
    n_chain = 0
    for s in all_sites(ctx):
        fi = s.func
        flow = flow_of(fi.node)
        tg = Tagger(ctx, fi)
        # only sites whose sources are freshly computed in this function (proposal / prior draw)
        src = {}
        for m in s.moves:
            e = m.expr
            val = None
            if isinstance(e, ast.Assign):
                val = e.value
            if isinstance(val, ast.Subscript) and isinstance(val.value, ast.Name):
                src[m.src_tag or m.dst_tag] = (val.value, m.node)
        if not {"u", "x", "logl"} <= set(src):
            continue
        xname, xnode = src["x"]
        uname, unode = src["u"]
        lname, lnode = src["logl"]
        xdefs = flow.reaching(xnode, xname.id)
        ldefs = flow.reaching(lnode, lname.id)
        udefs = flow.reaching(unode, uname.id)
        computed_here = any(d.value is not None and any(isinstance(c, ast.Call) and tg.role_of_call(c) == "prior_transform" for c in ast.walk(d.value)) for d in xdefs if d.kind == "assign")
        if not computed_here:
            continue
        n_chain += 1
        # x = T(u): every definition of the x source applies the prior transform to (elements of) the u source
        ok_x = True
        for d in xdefs:
            calls = [c for c in ast.walk(d.value) if isinstance(c, ast.Call) and tg.role_of_call(c) == "prior_transform"] if d.value is not None else []
            if not calls:
                ok_x = False
                continue
            for c in calls:
                leaves, visited = expr_leaves(fi.node, ast.Tuple(elts=list(c.args), ctx=ast.Load()), d.node)
                names = {n.id for a in c.args for n in ast.walk(a) if isinstance(n, ast.Name)}
                # comprehension variable iterating over the u source, or direct subscripting of it
                iter_names = set()
                for comp in ast.walk(d.value):
                    if isinstance(comp, (ast.ListComp, ast.GeneratorExp)):
                        for g in comp.generators:
                            iter_names |= {n.id for n in ast.walk(g.iter) if isinstance(n, ast.Name)}
                used = names | iter_names
                if uname.id not in used:
                    ok_x = False
                else:
                    # same reaching definition of the u source at both places
                    if {x.node.id if x.node else -1 for x in flow.reaching(d.node, uname.id)} != {x.node.id if x.node else -1 for x in udefs} - _elementwise_fill_nodes(flow, uname.id, udefs):
                        if not _same_modulo_fill(flow, d.node, uname.id, udefs):
                            ok_x = False
        R.check("C07.b", f"stored x is the prior transform of the stored u at {s.key()}", ok_x, fi, xdefs[0].stmt if xdefs else fi.node,
                msg=f"{fi.short}: the array stored as x (`{xname.id}`) is not the prior transform of the array stored as u (`{uname.id}`)",
                key=f"x-of-u:{s.key()}")
        # (logl, blobs) = L(x)
        ok_l = True
        for d in ldefs:
            if d.value is None or not (isinstance(d.value, ast.Call) and tg.role_of_call(d.value) == "likelihood"):
                ok_l = False
                continue
            argnames = {n.id for a in d.value.args for n in ast.walk(a) if isinstance(n, ast.Name)}
            if xname.id not in argnames:
                ok_l = False
            elif {x.node.id if x.node else -1 for x in flow.reaching(d.node, xname.id)} != {x.node.id if x.node else -1 for x in xdefs}:
                ok_l = False
        R.check("C07.b", f"stored logl/blobs are the likelihood of the stored x at {s.key()}", ok_l, fi, ldefs[0].stmt if ldefs else fi.node,
                msg=f"{fi.short}: the array stored as logl (`{lname.id}`) is not the likelihood evaluated at the array stored as x (`{xname.id}`)",
                key=f"logl-of-x:{s.key()}")
        if "blobs" in src:
            bname, bnode = src["blobs"]
            bdefs = flow.reaching(bnode, bname.id)
            same_call = {id(d.value) for d in bdefs} <= {id(d.value) for d in ldefs}
            # blobs may pass through an if/else of two likelihood calls on the same x
            ok_b = all(d.value is not None and isinstance(d.value, ast.Call) and tg.role_of_call(d.value) == "likelihood" and xname.id in {n.id for n in ast.walk(d.value) if isinstance(n, ast.Name)} or (isinstance(d.value, ast.Constant) and d.value.value is None) for d in bdefs)
            R.check("C07.b", f"stored blobs come from the same likelihood call as logl at {s.key()}", ok_b, fi, bdefs[0].stmt if bdefs else fi.node,
                    msg=f"{fi.short}: blobs (`{bname.id}`) are not produced by the likelihood call on `{xname.id}`", key=f"blobs-of-x:{s.key()}")
    R.floor("C07.b", "derivation chains (sites whose sources are computed in place)", n_chain, 1)
    # the prior-draw block of the mutation step (plain assignments, not a move site)
    n_prior = 0
    for fi in ctx.prog.functions.values():
        flow = flow_of(fi.node)
        tg = Tagger(ctx, fi)
        for n in flow.cfg.stmt_nodes():
            if n.kind != "stmt" or not isinstance(n.stmt, ast.Assign):
                continue
            v = n.stmt.value
            if isinstance(v, ast.Call) and tg.role_of_call(v) == "likelihood" and isinstance(n.stmt.targets[0], ast.Tuple):
                # logl, blobs = L(x): x must be defined as T(u...) and u must be the array stored under key 'u'
                xarg = v.args[0] if v.args else None
                if not isinstance(xarg, ast.Name):
                    continue
                xd = flow.reaching(n, xarg.id)
                if not xd or not all(d.value is not None and any(isinstance(c, ast.Call) and tg.role_of_call(c) == "prior_transform" for c in ast.walk(d.value)) for d in xd):
                    continue
                writes = [a for a in ctx.state.in_func(fi) if a.mode == "write" and a.key in ("u", "x", "logl", "blobs")]
                if not writes:
                    continue
                n_prior += 1
                # names stored under the keys
                stored = {}
                for a in writes:
                    wn = flow.node_containing(a.call)
                    if wn is not None and flow.cfg.reaches(n.id, wn.id) and isinstance(a.value, ast.Name):
                        stored.setdefault(a.key, set()).add(a.value.id)
                lt = n.stmt.targets[0]
                lname = lt.elts[0].id if isinstance(lt.elts[0], ast.Name) else None
                bname = lt.elts[1].id if len(lt.elts) > 1 and isinstance(lt.elts[1], ast.Name) else None
                uvars = set()
                for d in xd:
                    for c in ast.walk(d.value):
                        if isinstance(c, ast.Call) and tg.role_of_call(c) == "prior_transform":
                            uvars |= {x.id for a in c.args for x in ast.walk(a) if isinstance(x, ast.Name)}
                    # a comprehension variable stands for the rows of what it iterates over
                    for comp in ast.walk(d.value):
                        if isinstance(comp, (ast.ListComp, ast.GeneratorExp)):
                            for g in comp.generators:
                                tnames = {x.id for x in ast.walk(g.target) if isinstance(x, ast.Name)}
                                if tnames & uvars:
                                    uvars |= {x.id for x in ast.walk(g.iter) if isinstance(x, ast.Name)}
                ok = stored.get("x") == {xarg.id} and stored.get("logl") == {lname} and stored.get("u", set()) <= uvars and bool(stored.get("u"))
                if bname and "blobs" in stored:
                    ok = ok and stored["blobs"] == {bname}
                R.check("C07.b", f"prior draw in {fi.short}: stored (u, x, logl, blobs) are one derivation chain", ok, fi, n.stmt,
                        msg=f"{fi.short}: keys are stored from {stored} but the chain is u in {sorted(uvars)} -> x=`{xarg.id}` -> (logl, blobs)=(`{lname}`, `{bname}`)",
                        key=f"prior-chain:{fi.short}")
    R.floor("C07.b", "prior-draw chains", n_prior, 1)


def _elementwise_fill_nodes(flow, name, defs):
    return set()


def _same_modulo_fill(flow, at, name, defs) -> bool:
    """The u source is allocated (empty_like) and then filled row by row: the
    filling statement u_prime[k] = ... does not rebind the name, so the
    reaching definitions agree; this helper exists for clarity."""
    a = {x.node.id if x.node else -1 for x in flow.reaching(at, name)}
    b = {x.node.id if x.node else -1 for x in defs}
    return a == b


# ------------------------------------------------------------------ C07.c
def bounds_helpers(ctx: Context) -> Tuple[FuncInfo, FuncInfo]:
    """(boundary map, bounds predicate) by role: module-level functions with
    parameters (.., periodic, reflective); the predicate's returns are built from
    comparisons, the map returns a modified copy of its first argument."""
    pred = bmap = None
    for fi in ctx.prog.functions.values():
        if fi.cls is not None or fi.parent is not None:
            continue
        if not {"periodic", "reflective"} <= set(fi.params):
            continue
        has_cmp = any(isinstance(n, ast.Compare) and any(isinstance(o, (ast.GtE, ast.LtE, ast.Gt, ast.Lt)) for o in n.ops) for n in walk_no_nested(fi.node))
        first = fi.params[0]
        # names that alias a copy of the first parameter (u = u.copy(); folded = u.copy(); np.array(u))
        copies = {first}
        has_copy = any(fresh_copy_source(lambda c_: ctx.res.external_name(fi, c_), n) is not None for n in walk_no_nested(fi.node))
        for n in walk_no_nested(fi.node):
            if isinstance(n, ast.Assign) and len(n.targets) == 1 and isinstance(n.targets[0], ast.Name):
                v = n.value
                src_ = fresh_copy_source(lambda c_: ctx.res.external_name(fi, c_), v)
                if isinstance(src_, ast.Name) and src_.id in copies:
                    copies.add(n.targets[0].id)
                # views of a copy (same memory, other shape): cols = np.atleast_2d(u) / u.reshape(...)
                elif isinstance(v, ast.Call) and has_copy and ((dotted(v.func) in ("np.atleast_2d", "np.atleast_1d", "np.asarray", "np.reshape", "np.ravel") and v.args and isinstance(v.args[0], ast.Name) and v.args[0].id in copies)
                                                                     or (isinstance(v.func, ast.Attribute) and v.func.attr in ("reshape", "view", "ravel") and isinstance(v.func.value, ast.Name) and v.func.value.id in copies)):
                    copies.add(n.targets[0].id)
        stores = any(isinstance(n, (ast.Assign, ast.AugAssign)) and isinstance((n.targets[0] if isinstance(n, ast.Assign) else n.target), ast.Subscript)
                     and isinstance((n.targets[0] if isinstance(n, ast.Assign) else n.target).value, ast.Name)
                     and (n.targets[0] if isinstance(n, ast.Assign) else n.target).value.id in copies for n in walk_no_nested(fi.node))
        if len(fi.params) != 3:
            continue
        if stores:
            bmap = fi
        elif has_cmp:
            pred = fi
    if pred is None or bmap is None:
        raise AnalysisError("C07.c: boundary map / bounds predicate not found by role")
    return bmap, pred


def rule_c(ctx: Context, R: Reporter):
    bmap, pred = bounds_helpers(ctx)
    base = kernel_base(ctx)
    impls = [c.methods["_propose"] for c in ctx.prog.subclasses(base) if "_propose" in c.methods]
    R.floor("C07.c", "implementations of the abstract proposal", len(impls), 2)
    for m in impls:
        flow = flow_of(m.node)
        cfg = flow.cfg
        for n in cfg.stmt_nodes():
            if n.kind != "stmt" or not isinstance(n.stmt, ast.Return) or n.stmt.value is None:
                continue
            v = n.stmt.value
            if not isinstance(v, ast.Name):
                R.check("C07.c", "proposal returned through a named, checked value", False, m, n.stmt,
                        msg=f"{m.short}: returns `{unparse(v)[:60]}` without the boundary map and bounds check applied to a named value")
                continue
            ds = flow.reaching(n, v.id)
            mapped = bool(ds) and all(d.value is not None and isinstance(d.value, ast.Call) and bmap in ctx.res.call_targets(m, d.value) for d in ds)
            checked = False
            for (t, pol) in conds_holding_at(cfg, n):
                if pol and isinstance(t, ast.Call) and pred in ctx.res.call_targets(m, t) and t.args and isinstance(t.args[0], ast.Name) and t.args[0].id == v.id:
                    tn = flow.node_containing(t)
                    if {d.node.id for d in flow.reaching(tn, v.id) if d.node} == {d.node.id for d in ds if d.node}:
                        checked = True
            masked = False
            if not checked:
                masked = _caller_masks_with_predicate(ctx, base, pred)
            R.check("C07.c", f"{m.short}: returned proposal is boundary-mapped", mapped, m, n.stmt,
                    msg=f"{m.short}: returned `{v.id}` is not the result of {bmap.name}(...): periodic/reflective coordinates can leave [0,1]",
                    key=f"mapped:{m.short}")
            R.check("C07.c", f"{m.short}: returned proposal passed the bounds predicate (or is masked by it)", checked or masked, m, n.stmt,
                    msg=f"{m.short}: `{v.id}` is returned without a dominating `{pred.name}({v.id}, ...)` test and the accept mask does not include it: "
                        f"points outside the unit cube can be stored",
                    key=f"checked:{m.short}")
    # the prior draw: u from the unit-cube generator
    for fi in ctx.prog.functions.values():
        for a in ctx.state.in_func(fi):
            if a.mode == "write" and a.key == "u" and isinstance(a.value, ast.Name):
                flow = flow_of(fi.node)
                wn = flow.node_containing(a.call)
                for d in flow.reaching(wn, a.value.id):
                    if d.value is None or not isinstance(d.value, ast.Call):
                        continue
                    nm = ctx.res.external_name(fi, d.value)
                    if nm and nm.startswith("numpy.random."):
                        R.check("C07.c", "prior draw of u uses the unit-cube uniform generator", nm in ("numpy.random.rand", "numpy.random.random", "numpy.random.random_sample", "numpy.random.uniform") and not (nm == "numpy.random.uniform" and d.value.args),
                                fi, d.stmt, msg=f"{fi.short}: u is drawn with `{unparse(d.value)[:60]}`, not uniform on [0,1)^d", key=f"prior-u:{fi.short}")


def _caller_masks_with_predicate(ctx: Context, base: ClassInfo, pred: FuncInfo) -> bool:
    run = base.methods.get("run")
    if run is None:
        return False
    flow = flow_of(run.node)
    for n in flow.cfg.stmt_nodes():
        if n.kind == "stmt" and isinstance(n.stmt, ast.Assign) and isinstance(n.stmt.targets[0], ast.Subscript):
            idx = n.stmt.targets[0].slice
            if isinstance(idx, ast.Name):
                leaves, visited = expr_leaves(run.node, idx, n)
                if any(l.kind == "call" and l.text.split(".")[-1] == pred.name for l in leaves):
                    return True
    return False


# ------------------------------------------------------------------ C07.d
def rule_d(ctx: Context, R: Reporter):
    base = kernel_base(ctx)
    run = base.methods.get("run")
    if run is None:
        raise AnalysisError("C07.d: kernel run method not found")
    rets = [r for r in walk_no_nested(run.node) if isinstance(r, ast.Return) and isinstance(r.value, ast.Tuple)]
    if not rets:
        raise AnalysisError("C07.d: kernel run does not return a tuple")
    tg = Tagger(ctx, run)
    flow = flow_of(run.node)
    n_pos = 0
    consumers = []
    for fi in ctx.prog.functions.values():
        fl = flow_of(fi.node)
        for n in fl.cfg.stmt_nodes():
            if n.kind == "stmt" and isinstance(n.stmt, ast.Assign) and isinstance(n.stmt.targets[0], ast.Tuple) and isinstance(n.stmt.value, (ast.Call, ast.Name)):
                callv = n.stmt.value
                if isinstance(callv, ast.Name):
                    ds0 = fl.reaching(n, callv.id)
                    if len(ds0) == 1 and ds0[0].kind == "assign" and isinstance(ds0[0].value, ast.Call) and not ds0[0].path:
                        callv = ds0[0].value
                    else:
                        continue
                reach = [t for t in ctx.res.call_targets(fi, callv) if isinstance(t, FuncInfo)]
                if any(run in ctx.cg.reachable([t]) and t is not run and fi.cls is not base and not ctx.prog.is_subclass(fi.cls, base) if fi.cls else run in ctx.cg.reachable([t]) for t in reach):
                    if len(n.stmt.targets[0].elts) == len(rets[0].value.elts):
                        consumers.append((fi, n))
    # consumers that wrap the result in a named tuple and read it by field: NT(*result) / NT._make(result)
    nt_consumers = []
    for fi in ctx.prog.functions.values():
        fl = flow_of(fi.node)
        for n in fl.cfg.stmt_nodes():
            if not (n.kind == "stmt" and isinstance(n.stmt, ast.Assign) and isinstance(n.stmt.targets[0], ast.Name) and isinstance(n.stmt.value, ast.Call)):
                continue
            c = n.stmt.value
            inner = None
            ntname = None
            if len(c.args) == 1 and isinstance(c.args[0], ast.Starred) and isinstance(c.func, ast.Name):
                inner, ntname = c.args[0].value, c.func.id
            elif isinstance(c.func, ast.Attribute) and c.func.attr == "_make" and isinstance(c.func.value, ast.Name) and len(c.args) == 1:
                inner, ntname = c.args[0], c.func.value.id
            if inner is None:
                continue
            fields = _namedtuple_fields(ctx, fi, ntname)
            if fields is None:
                continue
            callv = inner
            if isinstance(callv, ast.Name):
                ds0 = fl.reaching(n, callv.id)
                if len(ds0) == 1 and ds0[0].kind == "assign" and isinstance(ds0[0].value, ast.Call) and not ds0[0].path:
                    callv = ds0[0].value
            if not isinstance(callv, ast.Call):
                continue
            reach = [t for t in ctx.res.call_targets(fi, callv) if isinstance(t, FuncInfo)]
            if any(run in ctx.cg.reachable([t]) and t is not run for t in reach) and len(fields) == len(rets[0].value.elts):
                nt_consumers.append((fi, n, n.stmt.targets[0].id, fields))
    R.floor("C07.d", "consumers unpacking the kernel result", len(consumers) + len(nt_consumers), 1)
    for r in rets:
        at = flow.node_containing(r)
        prod = [tg.tag(e, at) for e in r.value.elts]
        for (fi, n, var, fields) in nt_consumers:
            fl = flow_of(fi.node)
            writes = [a for a in ctx.state.in_func(fi) if a.mode == "write"]
            for i, (p, fld) in enumerate(zip(prod, fields)):
                if p not in PARTICLE_FIELDS:
                    continue
                n_pos += 1
                keys = set()
                for a in writes:
                    if a.value is None:
                        continue
                    wn = fl.node_containing(a.call)
                    for x in ast.walk(a.value):
                        if isinstance(x, ast.Attribute) and isinstance(x.value, ast.Name) and x.value.id == var and x.attr == fld and wn is not None and any(d.node is n for d in fl.reaching(wn, var)):
                            keys.add(a.key)
                R.check("C07.d", f"kernel result position {i} ('{p}') is stored under key '{p}'", keys == {p}, fi, n.stmt,
                        msg=f"{fi.short}: position {i} of the kernel result is field '{p}' ({unparse(r.value.elts[i])}); it is read back as `{var}.{fld}` and stored under {sorted(keys) or 'no key'}",
                        key=f"pos{i}:{p}")
        for (fi, n) in consumers:
            tgt = n.stmt.targets[0].elts
            fl = flow_of(fi.node)
            # key under which each unpacked variable is stored
            writes = [a for a in ctx.state.in_func(fi) if a.mode == "write"]
            for i, (p, t) in enumerate(zip(prod, tgt)):
                if p not in PARTICLE_FIELDS or not isinstance(t, ast.Name):
                    continue
                n_pos += 1
                keys = set()
                for a in writes:
                    wn = fl.node_containing(a.call)
                    if wn is None or a.value is None:
                        continue
                    names = {x.id for x in ast.walk(a.value) if isinstance(x, ast.Name)}
                    if t.id in names and any(d.node is n for d in fl.reaching(wn, t.id)):
                        keys.add(a.key)
                R.check("C07.d", f"kernel result position {i} ('{p}') is stored under key '{p}'", keys == {p}, fi, n.stmt,
                        msg=f"{fi.short}: position {i} of the kernel result is field '{p}' ({unparse(r.value.elts[i])}) but `{t.id}` is stored under {sorted(keys) or 'no key'}",
                        key=f"pos{i}:{p}")
    R.analysed["C07.d:positions"] = n_pos
    if n_pos < 3:
        raise AnalysisError("C07.d: fewer than 3 particle positions matched between kernel result and consumer")


def _namedtuple_fields(ctx: Context, fi: FuncInfo, name: str) -> Optional[List[str]]:
    """Field names, in order, of a module-level named tuple: `N = namedtuple("N", [...] | "a b c")`
    or `class N(NamedTuple): a: T; b: T`."""
    mod = fi.module
    v = mod.constants.get(name)
    if isinstance(v, ast.Call) and dotted(v.func).split(".")[-1] == "namedtuple" and len(v.args) >= 2:
        f = v.args[1]
        if isinstance(f, (ast.List, ast.Tuple)) and all(isinstance(e, ast.Constant) and isinstance(e.value, str) for e in f.elts):
            return [e.value for e in f.elts]
        if isinstance(f, ast.Constant) and isinstance(f.value, str):
            return f.value.replace(",", " ").split()
    ci = mod.classes.get(name)
    if ci is not None and any("NamedTuple" in b for b in ci.base_names):
        return [st.target.id for st in ci.node.body if isinstance(st, ast.AnnAssign) and isinstance(st.target, ast.Name)]
    return None


# ------------------------------------------------------------------ C07.e
def rule_e(ctx: Context, R: Reporter):
    sc = ctx.state.state_cls
    mod = sc.module
    found = 0
    for m in sc.methods.values():
        flow = flow_of(m.node)
        for n in flow.cfg.stmt_nodes():
            for c in calls_in_node(n):
                if isinstance(c.func, ast.Attribute) and c.func.attr == "append" and isinstance(c.func.value, ast.Subscript):
                    b = c.func.value.value
                    if isinstance(b, ast.Attribute) and b.attr == "_history":
                        found += 1
                        # loop header
                        if not n.loops:
                            R.check("C07.e", "commit iterates over the key set", False, m, c, msg=f"{m.short}: history append outside a loop over keys")
                            continue
                        head = flow.cfg.nodes[n.loops[-1]]
                        it = head.stmt.iter if head.kind == "for" else None
                        keys = _const_set(mod, it)
                        ok_iter = keys is not None and set(PARTICLE_FIELDS) <= keys
                        R.check("C07.e", "commit loop ranges over a key table containing u, x, logl, blobs", ok_iter, m, head.stmt,
                                msg=f"{m.short}: commit loop iterates `{unparse(it)}` = {sorted(keys) if keys else '?'}; a record field is never committed", key="commit-keys")
                        loopvar = head.stmt.target.id if head.kind == "for" and isinstance(head.stmt.target, ast.Name) else None
                        for (t, pol) in conds_holding_at(flow.cfg, n):
                            tn = flow.node_containing(t)
                            if tn is None or head.id not in tn.loops:
                                continue
                            names = {x.id for x in ast.walk(t) if isinstance(x, ast.Name)}
                            if loopvar not in names:
                                # condition on the value: only `value is not None`
                                nt = is_none_test(t)
                                ok = nt is not None and ((nt[1] is False and pol) or (nt[1] is True and not pol))
                                if not ok:
                                    # any boolean expression over the single atom `value is [not] None` that is true exactly when the value is set
                                    from ..util import bool_skeleton as _bs

                                    atoms_: List[ast.expr] = []
                                    f_ = _bs(t, atoms_)
                                    if len(atoms_) == 1 and is_none_test(atoms_[0]) is not None:
                                        is_none_when_true = is_none_test(atoms_[0])[1]
                                        # atom value v  <=>  (value is None) == is_none_when_true
                                        ok = all((f_((v,)) == pol) == ((v == is_none_when_true) is False) for v in (False, True))
                                if not ok and not _is_strict_flag(t):
                                    R.check("C07.e", "commit is not filtered by a value-dependent condition", False, m, t,
                                            msg=f"{m.short}: the history append is guarded by `{unparse(t)}`", key=f"commit-guard:{norm_text(t)}")
                                continue
                            ok = False
                            if isinstance(t, ast.Compare) and len(t.ops) == 1 and ((isinstance(t.ops[0], ast.In) and pol) or (isinstance(t.ops[0], ast.NotIn) and not pol)):
                                ks = _const_set(mod, t.comparators[0])
                                ok = ks is not None and set(PARTICLE_FIELDS) <= ks
                            R.check("C07.e", "key filter of the commit keeps every record field", ok, m, t,
                                    msg=f"{m.short}: the history append is filtered by `{unparse(t)}` (polarity {pol}); a record field can be skipped", key=f"commit-filter:{norm_text(t)}")
    R.floor("C07.e", "history append sites", found, 1)


def _is_strict_flag(t: ast.expr) -> bool:
    return isinstance(t, ast.Name) and t.id == "strict"


def _const_set(mod, e: Optional[ast.expr]) -> Optional[Set[str]]:
    if e is None:
        return None
    if isinstance(e, ast.Name) and e.id in mod.constants:
        e = mod.constants[e.id]
    if isinstance(e, ast.Call) and dotted(e.func) in ("frozenset", "set", "list", "tuple", "sorted") and len(e.args) == 1:
        e = e.args[0]
    if isinstance(e, (ast.Set, ast.List, ast.Tuple)):
        vals = [x.value for x in e.elts if isinstance(x, ast.Constant)]
        if len(vals) == len(e.elts):
            return set(vals)
    if isinstance(e, ast.BinOp) and isinstance(e.op, (ast.BitAnd, ast.BitOr)):
        a, b = _const_set(mod, e.left), _const_set(mod, e.right)
        if a is not None and b is not None:
            return (a & b) if isinstance(e.op, ast.BitAnd) else (a | b)
    # `k for k in A if k in B [if k not in C]`: a filtered copy of a constant table
    if isinstance(e, (ast.GeneratorExp, ast.ListComp, ast.SetComp)) and len(e.generators) == 1 and isinstance(e.generators[0].target, ast.Name) \
            and isinstance(e.elt, ast.Name) and e.elt.id == e.generators[0].target.id:
        g = e.generators[0]
        base = _const_set(mod, g.iter)
        if base is None:
            return None
        for c in g.ifs:
            if isinstance(c, ast.Compare) and len(c.ops) == 1 and isinstance(c.left, ast.Name) and c.left.id == g.target.id and isinstance(c.ops[0], (ast.In, ast.NotIn)):
                other = _const_set(mod, c.comparators[0])
                if other is None:
                    return None
                base = (base & other) if isinstance(c.ops[0], ast.In) else (base - other)
            else:
                return None
        return base
    return None


# ------------------------------------------------------------------ C07.f
def _correlated_block(cfg, facts):
    """Edge filter for path queries: an edge labelled with a branch condition
    whose text equals a fact known to hold (same test, opposite polarity) is
    infeasible (the guard's operands are attributes/locals not reassigned on
    these short paths)."""
    held = {(norm_text(t), pol) for (t, pol) in facts}

    def blocked(a, b, lab):
        if lab and lab[0] == "cond":
            for (t, pol) in split_cond(lab[1], lab[2]):
                if (norm_text(t), not pol) in held:
                    return True
        return False

    return blocked


def rule_f(ctx: Context, R: Reporter):
    """Write-back coherence: a local particle array that was already stored
    (the state manager stores copies) and is then updated in place must be
    stored again on every path, for every record field."""
    n = 0
    for fi in ctx.prog.functions.values():
        flow = flow_of(fi.node)
        cfg = flow.cfg
        writes = [a for a in ctx.state.in_func(fi, include_nested=False) if a.mode == "write" and a.key in PARTICLE_FIELDS and isinstance(a.value, ast.Name)]
        if not writes:
            continue
        for nd in cfg.stmt_nodes():
            if nd.kind != "stmt" or not isinstance(nd.stmt, ast.Assign) or not isinstance(nd.stmt.targets[0], ast.Subscript) or not isinstance(nd.stmt.targets[0].value, ast.Name):
                continue
            var = nd.stmt.targets[0].value.id
            before = [a for a in writes if a.value.id == var and flow.node_containing(a.call) is not None and cfg.reaches(flow.node_containing(a.call).id, nd.id)
                      and {d.node.id if d.node else -1 for d in flow.reaching(flow.node_containing(a.call), var)} == {d.node.id if d.node else -1 for d in flow.reaching(nd, var)}]
            if not before:
                continue
            key = before[0].key
            n += 1
            after = [flow.node_containing(a.call) for a in writes if a.value.id == var and a.key == key and flow.node_containing(a.call) is not None and cfg.reaches(nd.id, flow.node_containing(a.call).id)]
            facts = conds_holding_at(cfg, nd)
            ok = bool(after) and not cfg.reaches(nd.id, cfg.exit.id, blocked=[x.id for x in after], blocked_edges=_correlated_block(cfg, facts))
            R.check(
                "C07.f", f"{fi.short}: in-place update of `{var}` after it was stored under '{key}' is written back on every path", ok, fi, nd.stmt,
                msg=f"{fi.short}: `{unparse(nd.stmt)[:60]}` changes rows of `{var}` after a copy was stored under key '{key}', and some path to the end of the function never stores it again: "
                    f"the state keeps the stale '{key}' of the replaced rows while the other fields are updated (incoherent records)", key=f"write-back:{fi.short}:{key}",
            )
    R.floor("C07.f", "in-place updates of already-stored particle arrays", n, 3)


# ------------------------------------------------------------------ C07.g
def _is_user_like_arg(e: ast.AST) -> bool:
    d = dotted(e) if isinstance(e, (ast.Attribute, ast.Name)) else ""
    return d.endswith("config.log_likelihood")


REWRITERS = {"nan_to_num", "clip", "where", "maximum", "minimum", "fmax", "fmin", "abs", "absolute", "round", "around", "rint", "floor", "ceil", "sign", "nanmax", "nanmin", "sort", "cumsum"}


def rule_m(ctx: Context, R: Reporter):
    """C07.m  numpy contracts where the per-particle blob table is assembled from the raw results of the user's function:
      * rows handed to `np.array(rows, dtype=<configured dtype>)` must not be *lists by construction* (a starred
        assignment target `value, *extra = row`, `list(...)`, a list display): for a structured dtype numpy reads a
        tuple as one record but broadcasts every scalar of a list over all fields;
      * a table built from *columns* (`zip(*results)`) is turned into rows by a transpose, not by
        `.reshape(n_rows, -1)`, which re-cuts the flat buffer and scatters each particle's values over other particles."""
    n = 0
    for fi in ctx.prog.functions.values():
        if not any(_is_user_like(c) for c in calls_in(fi.node)):
            continue
        n += 1
        flow = flow_of(fi.node)
        starred = set()
        columns = set()
        for x in walk_no_nested(fi.node):
            tgs = []
            if isinstance(x, ast.Assign):
                tgs = x.targets
                src = x.value
            elif isinstance(x, (ast.For, ast.comprehension)):
                tgs = [x.target]
                src = x.iter
            else:
                continue
            from_zip_star = isinstance(src, ast.Call) and dotted(src.func) == "zip" and any(isinstance(a, ast.Starred) for a in src.args)
            for t in tgs:
                for y in ast.walk(t):
                    if isinstance(y, ast.Starred) and isinstance(y.value, ast.Name):
                        starred.add(y.value.id)
                        if from_zip_star:
                            columns.add(y.value.id)
                if from_zip_star:
                    for y in ast.walk(t):
                        if isinstance(y, ast.Name) and isinstance(y.ctx, ast.Store):
                            columns.add(y.id)

        def list_by_construction(e) -> Optional[str]:
            if isinstance(e, ast.Name) and e.id in starred:
                return f"the starred target `*{e.id}` (always a list)"
            if isinstance(e, (ast.List, ast.ListComp)):
                return "a list display"
            if isinstance(e, ast.Call) and dotted(e.func) == "list":
                return "list(...)"
            return None

        for c in calls_in(fi.node):
            nm = ctx.res.external_name(fi, c) or ""
            if nm in ("numpy.array", "numpy.asarray") and c.args and any(k.arg == "dtype" for k in c.keywords) and isinstance(c.args[0], ast.Name):
                rows = c.args[0].id
                # how the rows were collected: rows.append(E) / rows = [E for ...]
                elems = []
                for x in walk_no_nested(fi.node):
                    if isinstance(x, ast.Call) and isinstance(x.func, ast.Attribute) and x.func.attr == "append" and isinstance(x.func.value, ast.Name) and x.func.value.id == rows and x.args:
                        elems.append(x.args[0])
                    if isinstance(x, ast.Assign) and any(isinstance(t, ast.Name) and t.id == rows for t in x.targets) and isinstance(x.value, ast.ListComp):
                        elems.append(x.value.elt)
                for e in elems:
                    why = list_by_construction(e)
                    if why:
                        R.check("C07.m", "records handed to a possibly structured dtype are tuples", False, fi, c,
                                msg=f"{fi.short}: the rows of `{unparse(c)[:50]}` are {why}: with a multi-field structured blobs_dtype numpy does not read a list as one record but "
                                    f"broadcasts each scalar over all fields, so every particle's blob holds wrong values (tuples are read as records)", key=f"blob-rows-are-lists:{fi.short}")
            # reshape of a column-major table
            if isinstance(c.func, ast.Attribute) and c.func.attr == "reshape" and any(isinstance(a, ast.UnaryOp) and isinstance(a.operand, ast.Constant) and a.operand.value == 1 for a in c.args):
                base = c.func.value
                txt_names = {y.id for y in ast.walk(base) if isinstance(y, ast.Name)}
                if txt_names & columns:
                    R.check("C07.m", "a column-major table becomes rows by a transpose", False, fi, c,
                            msg=f"{fi.short}: `{unparse(c)[:70]}` reshapes a table built from the columns of `zip(*results)` ({sorted(txt_names & columns)}): reshape re-cuts the flat "
                                f"buffer instead of transposing it, so with two or more blobs per particle each stored row mixes the values of different particles", key=f"reshape-for-transpose:{fi.short}")
    R.check("C07.m", "result assembly scanned for numpy record / layout contracts", True, None, None, key="blob-assembly-scan")
    R.floor("C07.m", "functions that call the user's likelihood", n, 1)


def rule_g(ctx: Context, R: Reporter):
    """Likelihood values travel unmodified from the user's callable to storage."""
    n_fn = 0
    for fi in ctx.prog.functions.values():
        tg = Tagger(ctx, fi)
        calls = [c for c in calls_in(fi.node) if tg.role_of_call(c) == "likelihood" or _is_user_like(c)]
        if not calls:
            continue
        n_fn += 1
        flow = flow_of(fi.node)
        for c in calls_in(fi.node):
            nm = ctx.res.external_name(fi, c) or ""
            last = nm.split(".")[-1]
            if not nm.startswith("numpy.") or last not in REWRITERS or not c.args:
                continue
            a0 = c.args[0]
            at = flow.node_containing(c)
            tagged = tg.tag(a0, at) == "logl" or any(tg.role_of_call(x) == "likelihood" or _is_user_like(x) for x in ast.walk(a0) if isinstance(x, ast.Call))
            if last == "where" and len(c.args) == 3:
                tagged = any(tg.tag(x, at) == "logl" for x in c.args[1:])
            if tagged:
                R.check("C07.g", f"{fi.short}: log-likelihood values are stored as the user's likelihood returned them", False, fi, c,
                        msg=f"{fi.short}: `{unparse(c)[:70]}` rewrites log-likelihood values between the user's callable and storage (numpy's nan_to_num also maps -inf to -1.8e308 and NaN to 0.0): "
                            f"a stored logL is no longer what the likelihood returns at the stored x", key=f"logl-rewritten:{norm_text(c)[:50]}")
        # precision rewriting: a dtype chosen from another array (or a narrower float) rounds the user's values
        if any(_is_user_like(c) for c in calls_in(fi.node)):
            for c in calls_in(fi.node):
                nm = ctx.res.external_name(fi, c) or ""
                dt = None
                if nm in ("numpy.asarray", "numpy.array", "numpy.asanyarray", "numpy.fromiter"):
                    dt = next((k.value for k in c.keywords if k.arg == "dtype"), c.args[1] if len(c.args) > 1 else None)
                elif isinstance(c.func, ast.Attribute) and c.func.attr == "astype" and c.args and not nm.startswith("numpy."):
                    dt = c.args[0]
                elif nm in ("numpy.empty", "numpy.zeros", "numpy.ones", "numpy.full", "numpy.empty_like", "numpy.zeros_like", "numpy.ones_like", "numpy.full_like"):
                    # an array allocated to receive the values: its dtype is the precision they are stored in
                    at_ = flow.node_containing(c)
                    st_ = at_.stmt if at_ is not None else None
                    if isinstance(st_, ast.Assign) and isinstance(st_.targets[0], ast.Name) and name_tag(st_.targets[0].id) == "logl" and st_.value is c:
                        dt = next((k.value for k in c.keywords if k.arg == "dtype"), None)
                        if dt is None and nm.endswith("_like") and c.args:
                            dt = ast.Attribute(value=c.args[0], attr="dtype", ctx=ast.Load())  # the template's dtype
                if dt is None:
                    continue
                at = flow.node_containing(c)
                tgt = c.args[0] if nm.startswith("numpy.") and c.args and not nm.split(".")[-1].startswith(("empty", "zeros", "ones", "full")) else (c.func.value if isinstance(c.func, ast.Attribute) and not nm.startswith("numpy.") else None)
                # is the converted value the likelihood result (by tag of the assigned name or of the operand)?
                st = at.stmt if at is not None else None
                lhs_tag = name_tag(st.targets[0].id) if isinstance(st, ast.Assign) and isinstance(st.targets[0], ast.Name) else None
                raw_results = False
                if isinstance(tgt, ast.Name) and at is not None:
                    # the list of raw per-point results of the user's function (log-likelihood first, blobs after it)
                    for d_ in flow.reaching(at, tgt.id):
                        if d_.value is not None and any(isinstance(x, ast.Call) and (any(_is_user_like_arg(a_) for a_ in x.args)) for x in ast.walk(d_.value)):
                            raw_results = True
                if lhs_tag != "logl" and not (tgt is not None and tg.tag(tgt, at) == "logl") and not raw_results:
                    continue
                try:
                    from ..dataflow import Resolver as _Rs

                    dt_r = _Rs(fi.node).resolve(dt, at) if at is not None else dt
                except Exception:
                    dt_r = dt
                dtxt = norm_text(dt_r)
                if dtxt in ("float", "np.float64", "numpy.float64", "'float64'", "'f8'", "np.double", "'float'", "np.longdouble", "np.float128"):
                    continue
                R.check("C07.g", f"{fi.short}: log-likelihood values keep the user's double precision", False, fi, c,
                        msg=f"{fi.short}: `{unparse(c)[:70]}` converts the likelihood values to dtype `{unparse(dt)}`: with single-precision / integer coordinates the stored logL is "
                            f"rounded (differently in the vectorised and the pointwise evaluation modes)", key=f"logl-dtype:{norm_text(c)[:40]}")
        # shape rewriting of per-particle results: squeeze without an axis drops the particle axis of a batch of one
        if any(_is_user_like(c) for c in calls_in(fi.node)):
            for c in calls_in(fi.node):
                nm = ctx.res.external_name(fi, c) or ""
                is_sq = (nm == "numpy.squeeze" and len(c.args) == 1 and not any(k.arg == "axis" for k in c.keywords)) or \
                        (isinstance(c.func, ast.Attribute) and c.func.attr == "squeeze" and not c.args and not c.keywords and not nm.startswith("numpy."))
                if is_sq:
                    R.check("C07.g", f"{fi.short}: per-particle results keep their particle axis", False, fi, c,
                            msg=f"{fi.short}: `{unparse(c)[:60]}` squeezes every singleton axis: for a batch of one particle the particle axis itself is dropped and the blobs no "
                                f"longer have one row per particle (a valid configuration fails or pairs rows wrongly)", key=f"squeeze-all-axes:{fi.short}")
    R.floor("C07.g", "functions on the likelihood evaluation chain", n_fn, 3)
    R.check("C07.g", f"no value-rewriting numpy call is applied to log-likelihoods in {n_fn} functions on the evaluation chain", True, None, None, key="scan", loc="tempest/")


def _is_user_like(c: ast.Call) -> bool:
    d = dotted(c.func)
    if d.endswith("config.log_likelihood"):
        return True
    return any(dotted(a).endswith("config.log_likelihood") for a in c.args if isinstance(a, (ast.Attribute, ast.Name)))


# ------------------------------------------------------------------ C07.i / C07.j
def _have_blobs_fact(a: ast.AST, p: bool) -> Optional[bool]:
    """does the fact (a is p) say blobs are enabled (True) / disabled (False)?  None: unrelated"""
    txt = norm_text(a)
    if isinstance(a, (ast.Name, ast.Attribute)) and ("have_blobs" in txt):
        return p
    if isinstance(a, ast.Compare) and len(a.ops) == 1 and isinstance(a.comparators[0], ast.Constant) and a.comparators[0].value is None and "blobs_dtype" in norm_text(a.left):
        if isinstance(a.ops[0], ast.IsNot):
            return p
        if isinstance(a.ops[0], ast.Is):
            return not p
    return None


def rule_j(ctx: Context, R: Reporter):
    """C07.j  the stored blobs are only meaningful when blobs are enabled (with the option off the steps never
    refresh them: the key keeps whatever an earlier prior batch left there and the commit appends it again
    every iteration).  Every read of the blobs from the state outside the state class is therefore
    guarded by the have-blobs flag (`have_blobs` / `blobs_dtype is not None`), directly or through an
    enclosing conditional expression."""
    from ..util import conds_holding_at as _cha

    n = 0
    for a in ctx.state.accesses:
        if a.mode != "read" or a.key != "blobs" or a.func is None or a.func.cls is ctx.state.state_cls:
            continue
        fl = flow_of(a.func.node)
        nd = fl.node_containing(a.call)
        if nd is None:
            continue
        n += 1
        facts = []
        for (t, pol) in _cha(fl.cfg, nd):
            facts += split_cond(t, pol)
        # enclosing conditional expressions / boolean short-circuits inside the statement
        root = nd.ast if nd.ast is not None else nd.stmt
        if root is not None:
            def visit(x, acc):
                if x is a.call:
                    facts.extend(acc)
                    return True
                if isinstance(x, ast.IfExp):
                    return visit(x.test, acc) or visit(x.body, acc + split_cond(x.test, True)) or visit(x.orelse, acc + split_cond(x.test, False))
                if isinstance(x, ast.BoolOp):
                    # short-circuit: a later operand of `and` runs when the earlier ones are true, of `or` when they are false
                    pre = list(acc)
                    for v in x.values:
                        if visit(v, pre):
                            return True
                        pre = pre + split_cond(v, isinstance(x.op, ast.And))
                    return False
                return any(visit(ch, acc) for ch in ast.iter_child_nodes(x))
            visit(root, [])
        ok = any(_have_blobs_fact(at_, p) is True for (at_, p) in facts)
        R.check("C07.j", "the blobs are read from the state only where blobs are enabled", ok, a.func, a.call,
                msg=f"{a.func.short}: `{unparse(a.call)[:50]}` is not guarded by the have-blobs flag (conditions here: {[(unparse(x)[:30], p) for (x, p) in facts][:4]}): with the "
                    f"option off the stored blobs are stale left-overs of a prior batch, and they would be handed out row by row next to other particles' x and logl",
                key=f"blobs-read-unguarded:{a.func.short}")
    R.floor("C07.j", "reads of the stored blobs outside the state class", n, 3)


def rule_i(ctx: Context, R: Reporter):
    """C07.i  the likelihood that the configuration (hence every step) holds is the user's callable bound with
    *all* the extra arguments the user gave: on every path the value passed as the configuration's
    likelihood is the binding wrapper built from (callable, args, kwargs); a bare callable may be passed
    only where both args and kwargs are known to be empty."""
    cfgs = [c for c in ctx.prog.classes.values() if c.is_frozen_dataclass]
    if len(cfgs) != 1:
        raise AnalysisError("C07.i: configuration class not identified")
    cc = cfgs[0]
    # the binding wrapper: a class whose __call__ forwards *self.args and **self.kwargs
    wrappers = [c for c in ctx.prog.classes.values() if "__call__" in c.methods and any(
        isinstance(x, ast.Call) and any(isinstance(y, ast.Starred) for y in x.args) and any(k.arg is None for k in x.keywords) for x in ast.walk(c.methods["__call__"].node))]
    if not wrappers:
        raise AnalysisError("C07.i: binding wrapper (class whose __call__ forwards *args/**kwargs) not found")
    n = 0
    for fi in ctx.prog.functions.values():
        for (call, tg) in ctx.cg.sites.get(fi.qualname, []):
            if cc not in tg:
                continue
            kw = next((k for k in call.keywords if k.arg == "log_likelihood"), None)
            if kw is None:
                # positional: the dataclass fields in declaration order
                fields = [st.target.id for st in cc.node.body if isinstance(st, ast.AnnAssign) and isinstance(st.target, ast.Name)]
                if "log_likelihood" in fields and fields.index("log_likelihood") < len(call.args) and not any(isinstance(a_, ast.Starred) for a_ in call.args):
                    kw = ast.keyword(arg="log_likelihood", value=call.args[fields.index("log_likelihood")])
            if kw is None:
                continue
            n += 1
            fl = flow_of(fi.node)
            at = fl.node_containing(call)
            vals = []
            if isinstance(kw.value, ast.Name):
                for d in fl.reaching(at, kw.value.id):
                    vals.append((d.value if d.kind == "assign" and not d.path else None, d.node, d))
            else:
                vals.append((kw.value, at, None))
            for (v, nd, d) in vals:
                ok = False
                why = ""
                if isinstance(v, ast.Call) and any(t in wrappers for t in ctx.res.call_targets(fi, v) if isinstance(t, ClassInfo)):
                    w = next(t for t in ctx.res.call_targets(fi, v) if isinstance(t, ClassInfo))
                    init = w.methods.get("__init__")
                    params = [p for p in (init.params if init else []) if p != "self"]
                    got = {}
                    for i, a_ in enumerate(v.args):
                        if i < len(params):
                            got[params[i]] = a_
                    for k in v.keywords:
                        if k.arg:
                            got[k.arg] = k.value
                    txt = {k: norm_text(x) for k, x in got.items()}
                    ok = len(got) >= 3 and any("args" in t and "kwargs" not in t for t in txt.values()) and any("kwargs" in t for t in txt.values()) \
                        and txt.get("args", "args").endswith("args") and "kwargs" not in txt.get("args", "") and "kwargs" in txt.get("kwargs", "kwargs")
                    why = f"wrapper arguments {txt}"
                elif v is not None:
                    # a bare callable: only where nothing is to be bound
                    from ..util import conds_holding_at as _cha

                    facts = []
                    for (t, pol) in (_cha(fl.cfg, nd) if nd is not None else []):
                        facts += split_cond(t, pol)
                    empty = {"args": False, "kwargs": False}
                    for (a_, p) in facts:
                        t = norm_text(a_)
                        for k in empty:
                            if t.endswith("_" + k) or t == k:
                                if isinstance(a_, (ast.Name, ast.Attribute)) and p is False:
                                    empty[k] = True
                            if isinstance(a_, ast.Compare) and len(a_.ops) == 1 and isinstance(a_.comparators[0], ast.Constant) and a_.comparators[0].value is None \
                                    and norm_text(a_.left).endswith(k) and not norm_text(a_.left).endswith("kw" + k if k == "args" else "\0"):
                                if (isinstance(a_.ops[0], ast.Is) and p) or (isinstance(a_.ops[0], ast.IsNot) and not p):
                                    empty[k] = True
                    ok = all(empty.values())
                    why = f"bare callable `{unparse(v)[:30]}` under {[(unparse(x)[:30], p) for (x, p) in facts]}"
                else:
                    raise AnalysisError(f"C07.i: {fi.short}: definition of the configured likelihood not understood")
                R.check("C07.i", "the configured likelihood is the user's callable bound with all of its extra arguments", ok, fi, d.stmt if d is not None and d.stmt is not None else call,
                        msg=f"{fi.short}: the likelihood handed to the configuration can be {why}: the user's positional or keyword arguments are dropped on that path, so every "
                            f"stored log-likelihood is the value of a different function than the one the user supplied",
                        key=f"likelihood-binding:{norm_text(v)[:50] if v is not None else '?'}")
    R.floor("C07.i", "configuration constructions with a likelihood", n, 1)


def rule_k(ctx: Context, R: Reporter):
    """C07.k  the binding wrapper is a transparent pass-through: every return of its __call__ is the call
    f(x, *args, **kwargs) itself, with x the wrapper's own argument -- no test of the returned value (a zero
    log-likelihood is falsy), no substitution, no reused scratch buffer handed to the user function (blobs that
    are views of their input would alias it), no attribute of the wrapper written during a call."""
    wrappers = [c for c in ctx.prog.classes.values() if "__call__" in c.methods and any(
        isinstance(x, ast.Call) and any(isinstance(y, ast.Starred) for y in x.args) and any(k.arg is None for k in x.keywords) for x in ast.walk(c.methods["__call__"].node))]
    if not wrappers:
        raise AnalysisError("C07.k: binding wrapper not found")
    for w in wrappers:
        m = w.methods["__call__"]
        xparam = [p for p in m.params if p != "self"][0]
        fl = flow_of(m.node)
        fwd = [x for x in ast.walk(m.node) if isinstance(x, ast.Call) and any(isinstance(y, ast.Starred) for y in x.args) and any(k.arg is None for k in x.keywords)]
        n_ret = 0
        for r in walk_no_nested(m.node):
            if not isinstance(r, ast.Return):
                continue
            n_ret += 1
            v = r.value
            if isinstance(v, ast.Name):
                ds = fl.reaching(fl.node_containing(r), v.id)
                if len(ds) == 1 and ds[0].kind == "assign" and not ds[0].path:
                    v = ds[0].value
            ok = v in fwd
            R.check("C07.k", f"{m.short} returns what the user's function returned", ok, m, r,
                    msg=f"{m.short}: `{unparse(r)[:60]}` is not the forwarded call itself: the value the sampler stores as log-likelihood (and blobs) is no longer what the user's function "
                        f"returned at that point (e.g. a truthiness test turns an exact 0.0 into -inf)", key=f"wrapper-return:{norm_text(r.value)[:40] if r.value is not None else 'None'}")
        for c in fwd:
            a0 = c.args[0] if c.args and not isinstance(c.args[0], ast.Starred) else None
            ok = isinstance(a0, ast.Name) and a0.id == xparam and all(d.kind == "param" for d in fl.reaching(fl.node_containing(c), xparam))
            R.check("C07.k", f"{m.short} hands its own argument to the user's function", ok, m, c,
                    msg=f"{m.short}: the user's function receives `{unparse(a0) if a0 is not None else '?'}` instead of the point it was called with: a converted / reused buffer is "
                        f"shared between calls, so anything the function returns that refers to its input (blobs as views) is overwritten by the next evaluation", key="wrapper-argument")
        conds = [n_ for n_ in fl.cfg.stmt_nodes() if n_.kind == "test"]
        R.check("C07.k", f"{m.short} does not branch", not conds, m, conds[0].ast if conds else m.node,
                msg=f"{m.short}: branches on `{unparse(conds[0].ast)[:50] if conds else ''}`: the wrapper must be transparent", key="wrapper-branch")
        # stateless: no attribute written outside the constructor / unpickling hooks
        writers = []
        for mm in w.methods.values():
            if mm.name in ("__init__", "__setstate__", "__getstate__", "__reduce__"):
                continue
            for x in walk_no_nested(mm.node):
                tg = x.targets if isinstance(x, ast.Assign) else ([x.target] if isinstance(x, (ast.AugAssign, ast.AnnAssign)) else [])
                for t in tg:
                    for tt in (t.elts if isinstance(t, (ast.Tuple, ast.List)) else [t]):
                        b = tt
                        while isinstance(b, ast.Subscript):
                            b = b.value
                        if isinstance(b, ast.Attribute) and isinstance(b.value, ast.Name) and b.value.id == "self":
                            writers.append((mm, x))
        R.check("C07.k", f"{w.name} keeps no state between calls", not writers, writers[0][0] if writers else m, writers[0][1] if writers else m.node,
                msg=f"{writers[0][0].short if writers else ''}: `{unparse(writers[0][1])[:50] if writers else ''}` stores state on the wrapper during evaluation: results of one call can "
                    f"depend on (or alias) another call's data, and differ between serial and pooled evaluation", key="wrapper-stateless")
        R.floor("C07.k", "returns of the wrapper's __call__", n_ret, 1)
        # what is bound is what was given: the constructor stores the callable and the extra arguments unchanged (an
        # absent list / dict replaced by an empty one is the only conversion)
        init = w.methods.get("__init__")
        if init is not None:
            ips = [p for p in init.params if p != "self"]
            for x in walk_no_nested(init.node):
                if not (isinstance(x, ast.Assign) and len(x.targets) == 1 and isinstance(x.targets[0], ast.Attribute) and isinstance(x.targets[0].value, ast.Name) and x.targets[0].value.id == "self"):
                    continue
                v = x.value

                def as_given(e) -> bool:
                    if isinstance(e, ast.Name) and e.id in ips:
                        return True
                    if isinstance(e, ast.IfExp) and is_none_test(e.test) is not None and isinstance(is_none_test(e.test)[0], ast.Name) and is_none_test(e.test)[0].id in ips:
                        none_branch, other = (e.body, e.orelse) if is_none_test(e.test)[1] else (e.orelse, e.body)
                        empty = (isinstance(none_branch, (ast.List, ast.Dict, ast.Tuple)) and not (none_branch.keys if isinstance(none_branch, ast.Dict) else none_branch.elts)) \
                            or (isinstance(none_branch, ast.Call) and dotted(none_branch.func) in ("list", "dict", "tuple") and not none_branch.args)
                        return empty and as_given(other)
                    if isinstance(e, ast.BoolOp) and isinstance(e.op, ast.Or) and len(e.values) == 2 and as_given(e.values[0]) and isinstance(e.values[1], (ast.List, ast.Dict, ast.Tuple)):
                        return True
                    return False

                uses_param = any(isinstance(y, ast.Name) and y.id in ips for y in ast.walk(v)) or any(
                    isinstance(y, ast.Attribute) and isinstance(y.value, ast.Name) and y.value.id == "self" and y.attr in ("f", "args", "kwargs") for y in ast.walk(v))
                if not uses_param:
                    continue
                R.check("C07.k", f"{w.name} binds the callable and its extra arguments as given", as_given(v), init, x,
                        msg=f"{init.short}: `{unparse(x)[:70]}` stores a filtered / converted version of what the user gave: the function evaluated at every stored point is no longer the "
                            f"user's callable bound with *all* of its extra arguments (a dropped keyword silently changes every log-likelihood)", key=f"wrapper-binding:{x.targets[0].attr}")


def rule_stateless(ctx: Context, R: Reporter):
    """C07.l  the step object is a function of the state object it works on: no method other than the constructor stores
    state-derived data in the step object for a later call to read back."""
    from ..util import stateless_steps_rule

    stateless_steps_rule(ctx, R, "C07.l", ("Resampler", "Mutator"), "the rows that the next resampling / mutation moves are rows of an earlier pool, not of the history the weights were computed for")


def run(ctx: Context, R: Reporter):
    R.guard(rule_stateless, ctx, R)
    R.guard(rule_k, ctx, R)
    R.guard(rule_i, ctx, R)
    R.guard(rule_j, ctx, R)
    R.guard(rule_a, ctx, R)
    R.guard(rule_b, ctx, R)
    R.guard(rule_c, ctx, R)
    R.guard(rule_d, ctx, R)
    R.guard(rule_e, ctx, R)
    R.guard(rule_f, ctx, R)
    R.guard(rule_g, ctx, R)
    R.guard(rule_m, ctx, R)
    R.guard(rule_h, ctx, R)


def variants():
    from ..variants import Variant, alpha_rename, delete_stmt, edit, insert_after, insert_before, replace_expr, replace_if, replace_stmt

    mc = "tempest/mcmc.py"
    rs = "tempest/steps/resample.py"
    mu = "tempest/steps/mutate.py"
    core = "tempest/core.py"
    sm = "tempest/state_manager.py"
    return [
        Variant("a-accept-drop-logl", "bad", delete_stmt(mc, "BaseMCMCRunner.run", "self.logl[mask_accept] = logl_prime[mask_accept]"), ["C07.a"], quick=True),
        Variant("a-accept-drop-blobs", "bad", delete_stmt(mc, "BaseMCMCRunner.run", "self.blobs[mask_accept] = blobs_prime[mask_accept]"), ["C07.a"]),
        Variant("a-accept-x-other-mask", "bad", replace_stmt(mc, "BaseMCMCRunner.run", "self.x[mask_accept] = x_prime[mask_accept]", "mask_x = u_rand <= alpha\nself.x[mask_x] = x_prime[mask_x]"), ["C07.a"], quick=True),
        Variant("a-accept-swap-field", "bad", replace_stmt(mc, "BaseMCMCRunner.run", "self.x[mask_accept] = x_prime[mask_accept]", "self.x[mask_accept] = u_prime[mask_accept]"), ["C07.a"]),
        Variant("a-resample-blobs-other-index", "bad", replace_stmt(rs, "Resampler.run", "self.state.set_current('blobs', blobs[idx_resampled])", "idx_b = np.sort(idx_resampled)\nself.state.set_current('blobs', blobs[idx_b])"), ["C07.a"], quick=True),
        Variant("a-resample-drop-x", "bad", replace_expr(rs, "Resampler.run", "x[idx_resampled]", "x[:self.n_particles]"), ["C07.a"]),
        Variant("a-replace-drop-u", "bad", delete_stmt(mu, "Mutator.run", "u[infinite_idx] = u[idx]"), ["C07.a"], quick=True),
        Variant("a-replace-logl-other-src", "bad", replace_stmt(mu, "Mutator.run", "logl[infinite_idx] = logl[idx]", "logl[infinite_idx] = logl[finite_idx[:len(infinite_idx)]]"), ["C07.a", "ANALYSIS-ERROR"]),
        Variant("a-posterior-trim-drop-logl", "bad", delete_stmt(core, "SamplerCore.compute_posterior", "logl = logl[idx]"), ["C07.a"]),
        Variant("b-x-from-old-u", "bad", replace_expr(mc, "BaseMCMCRunner.run", "np.array([self.prior_transform(u_p) for u_p in u_prime])", "np.array([self.prior_transform(u_p) for u_p in self.u])"), ["C07.b"], quick=True),
        Variant("b-logl-from-old-x", "bad", replace_expr(mc, "BaseMCMCRunner.run", "self._evaluate_likelihood(x_prime)", "self._evaluate_likelihood(self.x)"), ["C07.b"]),
        Variant("b-prior-store-wrong-x", "bad", replace_expr(mu, "Mutator.run", "{'u': u, 'x': x, 'logl': logl, 'blobs': blobs, 'assignments': assignments, 'calls': calls, 'steps': 1, 'acceptance': 1.0, 'efficiency': 1.0}", "{'u': u, 'x': u, 'logl': logl, 'blobs': blobs, 'assignments': assignments, 'calls': calls, 'steps': 1, 'acceptance': 1.0, 'efficiency': 1.0}"), ["C07.b"]),
        Variant("c-rwm-no-check", "bad", replace_if(mc, "RWMRunner._propose", "check_bounds(proposal, self.periodic, self.reflective)", "return proposal"), ["C07.c"], quick=True),
        Variant("c-tpcn-no-map", "bad", delete_stmt(mc, "TPCNRunner._propose", "proposal = apply_boundary_conditions(proposal, self.periodic, self.reflective)"), ["C07.c"]),
        Variant("d-swap-u-x-unpack", "bad", replace_expr(mu, "Mutator.run", "{'u': u, 'x': x, 'logl': logl, 'efficiency': efficiency, 'acceptance': acceptance, 'steps': steps}", "{'u': x, 'x': u, 'logl': logl, 'efficiency': efficiency, 'acceptance': acceptance, 'steps': steps}"), ["C07.d"], quick=True),
        Variant("e-commit-skips-nonfinite-scalars", "bad", replace_expr(sm, "StateManager.commit_current_to_history", "value is not None", "value is not None and (np.ndim(value) > 0 or bool(np.isfinite(value)))"), ["C07.e"], quick=True),
        Variant("e-benign-commit-guard-negated-form", "benign", replace_expr(sm, "StateManager.commit_current_to_history", "value is not None", "not (value is None)")),
        Variant("e-commit-skips-blobs", "bad", replace_expr(sm, "StateManager.commit_current_to_history", "current_key in HISTORY_STATE_KEYS", "current_key in HISTORY_STATE_KEYS and current_key != 'blobs'"), ["C07.e"]),
        Variant("f-writeback-omits-blobs", "bad", edit(mu, "Mutator.run", _merge_writebacks(("x", "u", "logl"))), ["C07.f"], quick=True),
        Variant("f-writeback-omits-x", "bad", edit(mu, "Mutator.run", _merge_writebacks(("u", "logl", "blobs"))), ["C07.f"]),
        Variant("g-nan-to-num-kernel", "bad", insert_before(mc, "BaseMCMCRunner._evaluate_likelihood", "self.n_calls += self.n_walkers", "logl_prime = np.nan_to_num(logl_prime)"), ["C07.g"], quick=True),
        Variant("k-wrapper-filters-kwargs", "bad", insert_after("tempest/tools.py", "FunctionWrapper.__init__", "self.kwargs = {} if kwargs is None else kwargs", "self.kwargs = {k: v for k, v in self.kwargs.items() if not k.startswith('_')}"), ["C07.k"], quick=True),
        Variant("m-blob-rows-star-unpacked", "bad", replace_stmt(core, "SamplerCore._log_like", "blob = [item[1:] for item in results]", "blob = []\nfor (value0, *extra) in results:\n    blob.append(extra)"), ["C07.m"], quick=True),
        Variant("m-blob-columns-reshaped", "bad", replace_stmt(core, "SamplerCore._log_like", "blob = np.array(blob, dtype=dt)", "logl_col, *blob_cols = zip(*results)\nblob = np.array(blob_cols, dtype=dt).reshape(len(results), -1)"), ["C07.m"]),
        Variant("m-benign-blob-rows-as-tuples", "benign", replace_stmt(core, "SamplerCore._log_like", "blob = [item[1:] for item in results]", "blob = [tuple(item[1:]) for item in results]")),
        Variant("g-logl-array-in-coordinate-precision", "bad", replace_stmt(core, "SamplerCore._log_like", "logl = np.array([float(value) for value in results])", "logl = np.empty(len(results), dtype=np.result_type(np.asarray(x).dtype, np.float32))\nfor i, value in enumerate(results):\n    logl[i] = float(value)"), ["C07.g"], quick=True),
        Variant("g-benign-logl-array-preallocated-double", "benign", replace_stmt(core, "SamplerCore._log_like", "logl = np.array([float(value) for value in results])", "logl = np.empty(len(results), dtype=float)\nfor i, value in enumerate(results):\n    logl[i] = float(value)")),
        Variant("g-nan-to-num-wrapper", "bad", replace_expr(core, "SamplerCore._log_like", "(self.config.log_likelihood(x), None)", "(np.nan_to_num(self.config.log_likelihood(x), nan=-np.inf), None)"), ["C07.g"]),
        Variant("a-partial-row-copy", "bad", insert_before(mc, "BaseMCMCRunner.run", "logl_prime, blobs_prime = self._evaluate_likelihood(x_prime)", "bad_rows = ~np.all(np.isfinite(x_prime), axis=1)\nx_prime[bad_rows] = self.x[bad_rows]"), ["C07.a"], quick=True),
        Variant("k-zero-is-falsy", "bad", replace_stmt("tempest/tools.py", "FunctionWrapper.__call__", "return self.f(x, *self.args, **self.kwargs)", "value = self.f(x, *self.args, **self.kwargs)\nif not value:\n    return -np.inf\nreturn value"), ["C07.k"], quick=True),
        Variant("k-benign-bound-result", "benign", replace_stmt("tempest/tools.py", "FunctionWrapper.__call__", "return self.f(x, *self.args, **self.kwargs)", "value = self.f(x, *self.args, **self.kwargs)\nreturn value")),
        Variant("i-kwargs-dropped", "bad", replace_expr("tempest/sampler.py", "Sampler.__init__", "FunctionWrapper(log_likelihood, log_likelihood_args, log_likelihood_kwargs)", "FunctionWrapper(log_likelihood, log_likelihood_args, None)"), ["C07.i"], quick=True),
        Variant("i-bare-when-no-args", "bad", replace_expr("tempest/sampler.py", "Sampler.__init__", "FunctionWrapper(log_likelihood, log_likelihood_args, log_likelihood_kwargs)", "FunctionWrapper(log_likelihood, log_likelihood_args, log_likelihood_kwargs) if log_likelihood_args else log_likelihood"), ["C07.i", "ANALYSIS-ERROR"]),
        Variant("j-posterior-blobs-unguarded", "bad", replace_expr(core, "SamplerCore.compute_posterior", "self.config.blobs_dtype is not None", "return_blobs"), ["C07.j"], quick=True),
        Variant("j-benign-guard-flipped-branches", "benign", replace_stmt(rs, "Resampler.run", "blobs = self.state.get_history('blobs', flat=True) if self.have_blobs else None", "blobs = None if not self.have_blobs else self.state.get_history('blobs', flat=True)")),
        Variant("benign-rename-mask", "benign", alpha_rename(mc, "BaseMCMCRunner.run", "mask_accept", "accepted"), quick=True),
        Variant("benign-rename-xprime", "benign", alpha_rename(mc, "BaseMCMCRunner.run", "x_prime", "xp")),
        Variant("l-resampler-pool-cached", "bad", replace_stmt(rs, "Resampler.run", "u = self.state.get_history('u', flat=True)", "if getattr(self, '_u_pool', None) is None or len(self._u_pool) < len(weights):\n    self._u_pool = self.state.get_history('u', flat=True)\nu = self._u_pool"), ["C07.l"], quick=True),
        Variant("l-benign-diagnostic-attribute", "benign", insert_after(rs, "Resampler.run", "u = self.state.get_history('u', flat=True)", "self._last_pool_size = len(u)")),
        Variant("benign-rename-idx", "benign", alpha_rename(rs, "Resampler.run", "idx_resampled", "picks"), quick=True),
        Variant("benign-rename-logl-prime", "benign", alpha_rename(mc, "BaseMCMCRunner.run", "logl_prime", "ll_new")),
    ]


def _merge_writebacks(keep):
    """Replace the per-field write-backs after the -inf replacement by one update_current of `keep`."""
    def fn(node, tree):
        from ..variants import parse_stmts, replace_in_body

        done = [False]
        for n in ast.walk(node):
            if isinstance(n, ast.If):
                body = n.body
                idx = [i for i, st in enumerate(body) if "set_current" in ast.unparse(st) and any(f"'{k}'" in ast.unparse(st) for k in ("x", "u", "logl", "blobs"))]
                if len(idx) >= 3:
                    first = idx[0]
                    new = [st for i, st in enumerate(body) if i not in idx]
                    d = ", ".join(f"'{k}': {k}" for k in keep)
                    new.insert(first, parse_stmts("self.state.update_current({" + d + "})")[0])
                    n.body = new
                    done[0] = True
                    break
        return done[0]

    return fn
