"""C18  Invalid configurations are rejected up front; valid ones always run.

  C18.a  validation table: for each documented constraint there is an error site
         whose path condition is exactly (type/None background +) the documented
         violation; the collected errors are raised; validation runs on every
         path of __post_init__; the facade builds the configuration before the
         core; no user callable is called during construction
  C18.b  enum agreement: literal sets accepted for kernel and resampler equal the
         sets dispatched on; no accepted value leaves a variable unbound
  (C18.c statically visible run-time failures of valid options are decided under
   C13.b (int pool) and C14.a/e (cluster cadence, cluster cap))
"""
from __future__ import annotations

import ast
from typing import Dict, List, Optional, Set, Tuple

from ..cfg import cfg_of
from ..dataflow import Resolver as ExprResolver
from ..dataflow import flow_of
from ..engine import Context, Reporter
from ..model import AnalysisError, ClassInfo, FuncInfo, dotted, norm_text, walk_no_nested
from ..provenance import Tracer
from ..records import Tagger
from ..util import calls_in, calls_in_node, conds_holding_at, const_value, is_none_test, unparse

PROP = "C18"
EXPLANATION = (
    "Decides the up-front rejection clause from the validation code's shape: each documented constraint (dimension and "
    "particle count integer and positive, ESS ratio and volume-variation target positive, kernel and resampler names, "
    "vectorised likelihood with blobs, boundary index overlap and range) has an error site whose path condition is the "
    "documented violation and nothing else; every recorded error reaches the raise; validation runs on every path of "
    "construction, before the core is built, and construction calls neither user callable. The literal sets accepted for "
    "the kernel and the resampler agree with the sets the run-time dispatchers test, so no accepted value leaves a "
    "branch variable unbound. 'Every valid combination runs to completion' is a run-time statement over the option "
    "product and is not decided (its statically visible instances are decided under C13/C14)."
)
ASSUMPTIONS = ["the documented constraints are the nine listed in the property statement"]


def config_class(ctx: Context) -> ClassInfo:
    cs = [c for c in ctx.prog.classes.values() if c.is_frozen_dataclass]
    if len(cs) != 1:
        raise AnalysisError("C18: configuration class (frozen dataclass) not identified")
    return cs[0]


def validate_fn(ctx: Context, cc: ClassInfo) -> FuncInfo:
    for m in cc.methods.values():
        if any(isinstance(n, ast.Raise) for n in walk_no_nested(m.node)) and sum(1 for c in calls_in(m.node) if isinstance(c.func, ast.Attribute) and c.func.attr == "append") >= 5:
            return m
    raise AnalysisError("C18: validation method not found")


# constraint table: (id, description, violation matcher(atom, pol) -> bool, background matcher(atom, pol) -> bool)
def _field(atom: ast.AST, name: str) -> bool:
    return any(isinstance(x, ast.Attribute) and x.attr == name and isinstance(x.value, ast.Name) and x.value.id == "self" for x in ast.walk(atom))


def _cmp_nonpos(atom, pol, name) -> bool:
    """`self.name <= 0` true, `self.name < 1` true, `self.name > 0` false ..."""
    if not (isinstance(atom, ast.Compare) and len(atom.ops) == 1):
        return False
    l, r, op = atom.left, atom.comparators[0], atom.ops[0]
    if isinstance(l, ast.Attribute) and l.attr == name:
        c = const_value(r)
        if pol and ((isinstance(op, ast.LtE) and c == 0) or (isinstance(op, ast.Lt) and c == 1 and name in ("n_dim", "n_particles"))):
            return True
        if not pol and ((isinstance(op, ast.Gt) and c == 0) or (isinstance(op, ast.GtE) and c == 1 and name in ("n_dim", "n_particles"))):
            return True
    if isinstance(r, ast.Attribute) and r.attr == name:
        c = const_value(l)
        if pol and (isinstance(op, ast.GtE) and c == 0):
            return True
        if not pol and (isinstance(op, ast.Lt) and c == 0):
            return True
    return False


def _not_isinstance(atom, pol, name, types=("int",)) -> bool:
    if isinstance(atom, ast.Call) and dotted(atom.func) == "isinstance" and len(atom.args) == 2 and isinstance(atom.args[0], ast.Attribute) and atom.args[0].attr == name:
        tt = norm_text(atom.args[1])
        return (not pol) and all(t in tt for t in types)
    return False


def _not_in_literals(atom, pol, name) -> Optional[Set[str]]:
    if isinstance(atom, ast.Compare) and len(atom.ops) == 1 and isinstance(atom.left, ast.Attribute) and atom.left.attr == name and isinstance(atom.comparators[0], (ast.List, ast.Tuple, ast.Set)):
        vals = {const_value(x) for x in atom.comparators[0].elts}
        if (isinstance(atom.ops[0], ast.NotIn) and pol) or (isinstance(atom.ops[0], ast.In) and not pol):
            return vals
    return None


def error_sites(ctx: Context, v: FuncInfo):
    """(node, call/raise, path facts) with plain value locals (n_dim = self.n_dim) inlined in the facts."""
    from ..dataflow import Resolver as _Res
    from ..util import split_cond

    flow = flow_of(v.node)
    cfg = flow.cfg
    out = []

    def facts_at(nd):
        fs = []
        for (t, pol) in cfg.conditions_on_all_paths(nd.id):
            tn = flow.node_containing(t)
            # hoisted locals (`dynamic_mode = volume_variation is not None`, `periodic = self.periodic`) are inlined
            rt = _Res(v.node).resolve(t, tn) if tn is not None else t
            rt = _inline_attr_aliases(v, flow, rt, tn)
            fs += split_cond(rt, pol)
        return fs

    for nd in cfg.stmt_nodes():
        for c in calls_in_node(nd):
            if isinstance(c.func, ast.Attribute) and c.func.attr == "append" and isinstance(c.func.value, ast.Name):
                out.append((nd, c, facts_at(nd)))
        if nd.kind == "stmt" and isinstance(nd.stmt, ast.Raise):
            out.append((nd, nd.stmt, facts_at(nd)))
    return out


def _inline_attr_aliases(v: FuncInfo, flow, t: ast.expr, at):
    """Replace local names that are uniquely defined as `self.<field>` by that attribute."""
    import copy

    if at is None:
        return t

    class T(ast.NodeTransformer):
        def visit_Name(self, n):
            if isinstance(n.ctx, ast.Load):
                ds = flow.reaching(at, n.id)
                if len(ds) == 1 and ds[0].kind == "assign" and not ds[0].path and isinstance(ds[0].value, ast.Attribute) and isinstance(ds[0].value.value, ast.Name) and ds[0].value.value.id == "self":
                    return copy.deepcopy(ds[0].value)
                if not ds:
                    # a module-level constant table of types / literals ((int, float), ("tpcn", "rwm"))
                    mv = v.module.constants.get(n.id)
                    if isinstance(mv, (ast.Tuple, ast.List)) and all(isinstance(e, (ast.Name, ast.Constant)) for e in mv.elts):
                        return copy.deepcopy(mv)
            return n

        def _comp(self, n):
            bound = {x.id for g in n.generators for x in ast.walk(g.target) if isinstance(x, ast.Name)}
            outer = self

            class U(ast.NodeTransformer):
                def visit_Name(self, m):
                    if m.id in bound:
                        return m
                    return outer.visit_Name(m)

            return U().visit(n)

        visit_GeneratorExp = _comp
        visit_ListComp = _comp

    return T().visit(copy.deepcopy(t))


def rule_a(ctx: Context, R: Reporter, cc: ClassInfo, v: FuncInfo):
    sites = error_sites(ctx, v)
    post = cc.methods.get("__post_init__")
    if post is not None:
        sites += error_sites(ctx, post)
    R.analysed["C18.a:error_sites"] = len(sites)

    def find(viol, background=lambda a, p: False, extra_ok=lambda a, p: False):
        """An error site all of whose path facts are the violation or background."""
        best = None
        for (nd, c, facts) in sites:
            has_v = False
            clean = True
            for (a, p) in facts:
                if isinstance(a, ast.BoolOp) and ((isinstance(a.op, ast.Or) and p) or (isinstance(a.op, ast.And) and not p)):
                    # a true disjunction (`A or B`, or the negation of an earlier `A and B` test in an elif chain):
                    # fine if some disjunct is the violation (the error also fires for the others), or if every
                    # disjunct is background or contradicted by another fact of the path
                    from ..util import split_cond as _sc

                    dis = []
                    for x in a.values:
                        sx = _sc(x, p)
                        dis += sx if len(sx) == 1 else [(x, p)]
                    if any(viol(x, q) for (x, q) in dis):
                        has_v = True
                        continue
                    others = {(norm_text(b), q) for (b, q) in facts if b is not a}
                    if all(background(x, q) or extra_ok(x, q) or (norm_text(x), not q) in others for (x, q) in dis):
                        continue
                    clean = False
                    continue
                if viol(a, p):
                    has_v = True
                elif background(a, p) or extra_ok(a, p):
                    continue
                else:
                    clean = False
            if has_v and clean:
                return (nd, c, facts)
            if has_v and best is None:
                best = (nd, c, facts, "extra")
        return best

    table = [
        ("n_dim-type", "n_dim must be an int", lambda a, p: _not_isinstance(a, p, "n_dim"), None),
        ("n_dim-positive", "n_dim must be positive", lambda a, p: _cmp_nonpos(a, p, "n_dim"), None),
        ("n_particles-type", "n_particles must be an int", lambda a, p: _not_isinstance(a, p, "n_particles"), None),
        ("n_particles-positive", "n_particles must be positive", lambda a, p: _cmp_nonpos(a, p, "n_particles"), None),
        ("ess_ratio-positive", "ess_ratio must be positive", lambda a, p: _cmp_nonpos(a, p, "ess_ratio"), None),
        ("volume_variation-positive", "volume_variation must be positive when given", lambda a, p: _cmp_nonpos(a, p, "volume_variation"),
         lambda a, p: (is_none_test(a) is not None and _field(a, "volume_variation") and ((is_none_test(a)[1] is False) == p)) or (isinstance(a, ast.UnaryOp) is False and _not_isinstance(a, not p, "volume_variation", ("int", "float")))),
        ("sample-enum", "unknown kernel name rejected", lambda a, p: _not_in_literals(a, p, "sample") is not None, None),
        ("resample-enum", "unknown resampler name rejected", lambda a, p: _not_in_literals(a, p, "resample") is not None, None),
        ("vectorize-blobs", "vectorised likelihood with blobs rejected",
         lambda a, p: p and isinstance(a, ast.Attribute) and a.attr == "vectorize", lambda a, p: is_none_test(a) is not None and _field(a, "blobs_dtype") and ((is_none_test(a)[1] is False) == p)),
    ]
    for (cid, desc, viol, bg) in table:
        hit = find(viol, bg or (lambda a, p: False))
        ok = hit is not None and len(hit) == 3
        if cid == "vectorize-blobs" and ok:
            # both conjuncts are required
            facts = hit[2]
            ok = any(isinstance(a, ast.Attribute) and a.attr == "vectorize" and p for (a, p) in facts) and any(_field(a, "blobs_dtype") for (a, p) in facts)
        where = hit[1] if hit is not None else v.node
        R.check("C18.a", f"constraint `{desc}` has an error site guarded by exactly that violation", ok, v, where,
                msg=f"{v.short}: no error site whose condition is the documented violation for `{desc}`"
                    + (f" (closest site `{unparse(where)[:50]}` is additionally guarded by {[(unparse(a)[:40], p) for (a, p) in hit[2]]})" if hit is not None else ""),
                key=f"constraint:{cid}")
    # overlap and range of boundary indices
    overlap = False
    rng = {"periodic": False, "reflective": False}
    rng_foreign: Dict[str, list] = {}
    for (nd, c, facts) in sites:
        txt = [norm_text(a) for (a, p) in facts]
        flow = flow_of(v.node)
        for (a, p) in facts:
            if isinstance(a, ast.Name) and p:
                ds = flow.reaching(nd, a.id)
                if ds and all(d.value is not None and ("intersection" in norm_text(d.value) or "&" in norm_text(d.value)) and "periodic" in norm_text(d.value) and "reflective" in norm_text(d.value) for d in ds):
                    overlap = True
            elif p and ("intersection" in norm_text(a) or "&" in norm_text(a)) and "periodic" in norm_text(a) and "reflective" in norm_text(a):
                overlap = True
            for fld in ("periodic", "reflective"):
                if (not p) and isinstance(a, ast.Call) and dotted(a.func) == "all" and a.args and isinstance(a.args[0], (ast.GeneratorExp, ast.ListComp)):
                    g = a.args[0]
                    gen = g.generators[0]
                    if not (isinstance(gen.iter, ast.Attribute) and gen.iter.attr == fld and isinstance(gen.target, ast.Name)):
                        continue
                    lv = gen.target.id
                    conj = g.elt.values if isinstance(g.elt, ast.BoolOp) and isinstance(g.elt.op, ast.And) else [g.elt]
                    has_int = any(isinstance(c, ast.Call) and dotted(c.func) == "isinstance" and len(c.args) == 2 and isinstance(c.args[0], ast.Name) and c.args[0].id == lv and "int" in norm_text(c.args[1]) for c in conj)
                    has_rng = False
                    for c in conj:
                        if isinstance(c, ast.Compare) and len(c.ops) == 2 and isinstance(c.ops[0], ast.LtE) and isinstance(c.ops[1], ast.Lt) and const_value(c.left) == 0 \
                                and isinstance(c.comparators[0], ast.Name) and c.comparators[0].id == lv and norm_text(c.comparators[1]) == "self.n_dim":
                            has_rng = True
                    lows = [c for c in conj if isinstance(c, ast.Compare) and len(c.ops) == 1 and ((isinstance(c.ops[0], ast.GtE) and isinstance(c.left, ast.Name) and c.left.id == lv and const_value(c.comparators[0]) == 0)
                                                                                             or (isinstance(c.ops[0], ast.LtE) and const_value(c.left) == 0 and isinstance(c.comparators[0], ast.Name) and c.comparators[0].id == lv))]
                    highs = [c for c in conj if isinstance(c, ast.Compare) and len(c.ops) == 1 and ((isinstance(c.ops[0], ast.Lt) and isinstance(c.left, ast.Name) and c.left.id == lv and norm_text(c.comparators[0]) == "self.n_dim")
                                                                                              or (isinstance(c.ops[0], ast.Gt) and norm_text(c.left) == "self.n_dim" and isinstance(c.comparators[0], ast.Name) and c.comparators[0].id == lv))]
                    # the check itself must not be conditional on anything but the presence of this very field
                    def _present(b, q, fld=fld):
                        return is_none_test(b) is not None and _field(b, fld) and not any(_field(b, o) for o in ("periodic", "reflective") if o != fld) and ((is_none_test(b)[1] is False) == q)

                    def _background(b, q):
                        if _present(b, q):
                            return True
                        # a disjunction one of whose disjuncts is "this field is given" holds whenever the check has to run
                        if isinstance(b, ast.BoolOp) and ((isinstance(b.op, ast.And) and not q) or (isinstance(b.op, ast.Or) and q)):
                            return any(_present(x, q) for x in b.values)
                        return False

                    foreign = [(b, q) for (b, q) in facts if b is not a and not _background(b, q)]
                    if has_int and (has_rng or (lows and highs)):
                        if foreign:
                            rng_foreign[fld] = [(unparse(b)[:40], q) for (b, q) in foreign]
                        else:
                            rng[fld] = True
    R.check("C18.a", "overlapping periodic/reflective indices are rejected", overlap, v, v.node, msg=f"{v.short}: no error site for a non-empty intersection of periodic and reflective", key="constraint:overlap")
    for fld, ok in rng.items():
        R.check("C18.a", f"{fld} indices outside [0, n_dim) or non-integer are rejected", ok, v, v.node,
                msg=f"{v.short}: no error site guarded by `not all(isinstance(i, int) and 0 <= i < self.n_dim for i in self.{fld})`"
                    + (f" alone: the only such site is additionally conditional on {rng_foreign[fld]}, so an invalid `{fld}` list is accepted whenever that condition fails" if fld in rng_foreign else ""),
                key=f"constraint:range:{fld}")
    # the collected errors are raised on every path
    flow = flow_of(v.node)
    cfg = flow.cfg
    raises = [nd for nd in cfg.stmt_nodes() if nd.kind == "stmt" and isinstance(nd.stmt, ast.Raise)]
    appends = [nd for (nd, c, f) in error_sites(ctx, v) if not isinstance(c, ast.Raise)]
    lst = {c.func.value.id for (nd, c, f) in error_sites(ctx, v) if isinstance(c, ast.Call)}
    final = [r for r in raises if any(isinstance(t, ast.Name) and t.id in lst and p for (t, p) in conds_holding_at(cfg, r))]
    ok = bool(final) and all(cfg.reaches(a.id, final[0].id) or a.id == final[0].id for a in appends) and all(len(conds_holding_at(cfg, r)) == 1 for r in final)
    R.check("C18.a", "every recorded error reaches the final raise", ok, v, final[0].stmt if final else v.node,
            msg=f"{v.short}: the error list is not raised unconditionally at the end (final raise guarded by {[[unparse(t) for (t, p) in conds_holding_at(cfg, r)] for r in raises]})", key="errors-raised")
    # validate() is called on every normal path of __post_init__
    if post is None:
        raise AnalysisError("C18.a: __post_init__ not found")
    pcfg = cfg_of(post.node)
    vcalls = [nd for nd in pcfg.stmt_nodes() for c in calls_in_node(nd) if v in [t for t in ctx.res.call_targets(post, c) if isinstance(t, FuncInfo)]]
    ok = bool(vcalls) and not pcfg.reaches(pcfg.entry.id, pcfg.exit.id, blocked=[n.id for n in vcalls])
    R.check("C18.a", "validation runs on every path of __post_init__", ok, post, vcalls[0].stmt if vcalls else post.node,
            msg=f"{post.short}: a path reaches the end of __post_init__ without calling {v.name}()", key="validate-always")
    # facade: config constructed before the core; construction calls no user callable
    facade = None
    for fi in ctx.prog.functions.values():
        if fi.name == "__init__" and any(cc in tg for (c, tg) in ctx.cg.sites.get(fi.qualname, [])):
            facade = fi
    if facade is None:
        raise AnalysisError("C18.a: facade constructor (builds the configuration) not found")
    fflow = flow_of(facade.node)
    cfg_nodes = [fflow.node_containing(c) for (c, tg) in ctx.cg.sites.get(facade.qualname, []) if cc in tg]
    other_ctor = [(fflow.node_containing(c), t) for (c, tg) in ctx.cg.sites.get(facade.qualname, []) for t in tg if isinstance(t, ClassInfo) and t is not cc and t.name not in ("FunctionWrapper",)]
    ok = all(fflow.cfg.dominates(cfg_nodes[0].id, n.id) for (n, t) in other_ctor if n is not None) if cfg_nodes else False
    R.check("C18.a", "the configuration is validated before any other component is built", ok, facade, cfg_nodes[0].stmt if cfg_nodes else facade.node,
            msg=f"{facade.short}: a component is constructed before the validated configuration", key="config-first")
    reach = ctx.cg.reachable([facade])
    offenders = []
    for f in reach:
        tg = Tagger(ctx, f)
        for c in calls_in(f.node):
            role = tg.role_of_call(c)
            if role in ("prior_transform", "likelihood"):
                offenders.append((f, c))
    for (f, c) in offenders:
        R.check("C18.a", "construction does not call the user's prior transform or likelihood", False, f, c,
                msg=f"{f.short}: `{unparse(c)[:60]}` is reachable from the sampler constructor: a user callable runs before the configuration could be rejected")
    R.check("C18.a", f"no user callable is called in the {len(reach)} functions reachable from the constructor", not offenders, facade, facade.node, key="no-user-call-in-ctor")


# ------------------------------------------------------------------ C18.b
def rule_b(ctx: Context, R: Reporter, cc: ClassInfo, v: FuncInfo):
    accepted: Dict[str, Set[str]] = {}
    for (nd, c, facts) in error_sites(ctx, v):
        for (a, p) in facts:
            for fld in cc.fields():
                s = _not_in_literals(a, p, fld)
                if s is not None:
                    accepted[fld] = s
    R.floor("C18.b", "validated enumerations", len(accepted), 2)
    T = Tracer(ctx)
    dispatch: Dict[str, List[tuple]] = {f: [] for f in accepted}
    for fi in ctx.prog.functions.values():
        if fi.cls is cc:
            continue
        flow = flow_of(fi.node)
        for nd in flow.cfg.stmt_nodes():
            roots = []
            if nd.kind == "test":
                roots = [nd.ast]
            elif nd.ast is not None and nd.kind == "stmt" and not isinstance(nd.stmt, (ast.FunctionDef, ast.ClassDef)):
                roots = [x.test for x in ast.walk(nd.ast) if isinstance(x, ast.IfExp)]
            # dispatch tables: TABLE[field] / TABLE.get(field[, default]) with TABLE a dict display with string keys
            if nd.ast is not None and nd.kind in ("stmt", "test") and not isinstance(getattr(nd, "stmt", None), (ast.FunctionDef, ast.ClassDef)):
                for x in ast.walk(nd.ast):
                    tbl = keyexpr = None
                    default = False
                    if isinstance(x, ast.Subscript) and isinstance(x.ctx, ast.Load):
                        tbl, keyexpr = x.value, x.slice
                    elif isinstance(x, ast.Call) and isinstance(x.func, ast.Attribute) and x.func.attr == "get" and x.args:
                        tbl, keyexpr, default = x.func.value, x.args[0], len(x.args) > 1
                    if isinstance(tbl, ast.Name) and tbl.id in fi.module.constants:
                        tbl = fi.module.constants[tbl.id]
                    if not (isinstance(tbl, ast.Dict) and tbl.keys and all(isinstance(k, ast.Constant) and isinstance(k.value, str) for k in tbl.keys)):
                        continue
                    origs = T.origins(fi, keyexpr, nd)
                    for o in origs:
                        for ch in o.chain:
                            for fld in accepted:
                                if ch.startswith(f"{cc.name}({fld}=") or ch.startswith(f"{cc.name}.{fld} "):
                                    for k in tbl.keys:
                                        dispatch[fld].append((fi, x, nd, k.value, "table-default" if default else "table"))
            for a in [y for r0 in roots for y in ast.walk(r0)]:
                if isinstance(a, ast.Compare) and len(a.ops) == 1 and isinstance(a.ops[0], (ast.Eq, ast.NotEq)):
                    lit = None
                    other = None
                    if isinstance(a.comparators[0], ast.Constant) and isinstance(a.comparators[0].value, str):
                        lit, other = a.comparators[0].value, a.left
                    elif isinstance(a.left, ast.Constant) and isinstance(a.left.value, str):
                        lit, other = a.left.value, a.comparators[0]
                    if lit is None:
                        continue
                    origs = T.origins(fi, other, nd)
                    for o in origs:
                        for ch in o.chain:
                            for fld in accepted:
                                if ch.startswith(f"{cc.name}({fld}=") or ch.startswith(f"{cc.name}.{fld} "):
                                    dispatch[fld].append((fi, a, nd, lit, "cmp"))
                        if o.kind == "user":
                            for fld in accepted:
                                if o.detail.startswith(f"parameter {fld} of") and any(ch.startswith(f"{cc.name}({fld}=") for ch in o.chain):
                                    pass
    for fld, acc in accepted.items():
        sites = dispatch[fld]
        # de-duplicate
        uniq = {}
        for (fi, a, nd, lit, kind) in sites:
            uniq[(fi.qualname, id(a), lit)] = (fi, a, nd, lit, kind)
        sites = list(uniq.values())
        R.check("C18.b", f"enumeration `{fld}` is dispatched on somewhere", bool(sites), v, v.node, msg=f"no run-time dispatch on configuration field `{fld}` found", key=f"dispatch-exists:{fld}")
        by_func: Dict[str, List] = {}
        for s in sites:
            by_func.setdefault(s[0].qualname, []).append(s)
        for q, lst in by_func.items():
            fi = lst[0][0]
            lits = {s[3] for s in lst}
            extra = lits - acc
            R.check("C18.b", f"{fi.short}: every literal tested for `{fld}` is an accepted value", not extra, fi, lst[0][1],
                    msg=f"{fi.short}: tests `{fld}` against {sorted(extra)} which validation rejects (accepted: {sorted(acc)}): dead branch or misspelt name", key=f"dispatch-literals:{fld}:{fi.short}")
            # coverage: either an else branch exists or all accepted values are tested
            flow = flow_of(fi.node)
            has_else = False
            for s in lst:
                if s[4] == "table":
                    continue  # a missing key raises KeyError at run time: all accepted values must be keys
                if s[4] == "table-default":
                    has_else = True
                    continue
                ifn = s[2].stmt
                if not isinstance(ifn, ast.If):
                    has_else = True  # conditional expression: the other branch is the else
                    continue
                node = ifn
                while isinstance(node, ast.If):
                    if not node.orelse:
                        break
                    if len(node.orelse) == 1 and isinstance(node.orelse[0], ast.If):
                        node = node.orelse[0]
                        continue
                    has_else = True
                    break
            missing = acc - lits
            ok = has_else or not missing
            R.check("C18.b", f"{fi.short}: every accepted value of `{fld}` has a branch", ok, fi, lst[0][1],
                    msg=f"{fi.short}: accepted values {sorted(missing)} of `{fld}` match no branch and there is no else: variables assigned in the branches stay unbound", key=f"dispatch-cover:{fld}:{fi.short}")
    R.analysed["C18.b:accepted"] = {k: sorted(v) for k, v in accepted.items()}
    R.analysed["C18.b:dispatch_sites"] = {k: [f"{s[0].short}:{s[3]}" for s in v] for k, v in dispatch.items()}


_COERCIONS = {"int", "float", "round", "abs", "bool", "str", "max", "min", "clip", "floor", "ceil", "trunc", "rint", "list", "tuple", "set", "sorted", "unique",
              "asarray", "array", "astype", "lower", "upper", "strip"}


def rule_c(ctx: Context, R: Reporter, cc: ClassInfo, v: FuncInfo):
    """C18.c  validation sees what the user passed and the stored configuration is
    what validation saw: in the constructor hook that calls validate(),
      * before the call, a validated field is only given a default (a value that
        does not read the field itself), never a conversion of the user's value
        (`int(self.n_particles)` turns 2.7 into an accepted 2);
      * after the call, no validated field is re-bound (re-validation by
        dataclasses.replace() would see a different type than the user's)."""
    validated: Set[str] = set()
    for (nd, c, facts) in error_sites(ctx, v):
        for (a, p) in facts:
            for x in ast.walk(a):
                if isinstance(x, ast.Attribute) and isinstance(x.value, ast.Name) and x.value.id == "self" and x.attr in cc.fields():
                    validated.add(x.attr)
    R.floor("C18.c", "validated fields", len(validated), 8)
    hooks = [f for f in ctx.prog.functions.values() if f.cls is cc and f is not v and any(v in [t for t in tg if isinstance(t, FuncInfo)] for (c, tg) in ctx.cg.sites.get(f.qualname, []))]
    R.floor("C18.c", "constructor hooks calling validate()", len(hooks), 1)
    n = 0
    for h in hooks:
        flow = flow_of(h.node)
        cfg = flow.cfg
        vnodes = [flow.node_containing(c) for (c, tg) in ctx.cg.sites.get(h.qualname, []) if v in [t for t in tg if isinstance(t, FuncInfo)]]
        vnodes = [x for x in vnodes if x is not None]
        for nd in cfg.stmt_nodes():
            for c in calls_in_node(nd):
                fld = val = None
                if isinstance(c.func, ast.Attribute) and c.func.attr == "__setattr__" and dotted(c.func.value) == "object" and len(c.args) == 3:
                    fld, val = c.args[1], c.args[2]
                elif isinstance(c.func, ast.Name) and c.func.id == "setattr" and len(c.args) == 3 and isinstance(c.args[0], ast.Name) and c.args[0].id == "self":
                    fld, val = c.args[1], c.args[2]
                if fld is None:
                    continue
                names: Optional[Set[str]]
                if isinstance(fld, ast.Constant) and isinstance(fld.value, str):
                    names = {fld.value}
                else:
                    names = None
                    if isinstance(fld, ast.Name):
                        for lp in walk_no_nested(h.node):
                            if isinstance(lp, ast.For) and isinstance(lp.target, ast.Name) and lp.target.id == fld.id and isinstance(lp.iter, (ast.Tuple, ast.List)) \
                                    and all(isinstance(e, ast.Constant) for e in lp.iter.elts):
                                names = {e.value for e in lp.iter.elts}
                    if names is None:
                        names = set(validated)  # computed field name: may be any
                hit = names & validated
                if not hit:
                    continue
                n += 1
                after = any(cfg.reaches(vn.id, nd.id) for vn in vnodes)
                before = any(cfg.reaches(nd.id, vn.id) for vn in vnodes)
                rv = ExprResolver(h.node).resolve(val, nd)
                reads_self = any((isinstance(x, ast.Attribute) and isinstance(x.value, ast.Name) and x.value.id == "self" and x.attr in hit) or
                                 (isinstance(x, ast.Call) and dotted(x.func) == "getattr" and len(x.args) >= 2 and isinstance(x.args[0], ast.Name) and x.args[0].id == "self")
                                 for x in ast.walk(rv))
                if after:
                    R.check("C18.c", "no validated field is re-bound after validation", False, h, c,
                            msg=f"{h.short}: `{unparse(c)[:70]}` re-binds validated field(s) {sorted(hit)} after validate(): the stored configuration is not the one that was validated "
                                f"(re-validation, e.g. through dataclasses.replace, sees a different type)", key=f"post-validate-rebind:{','.join(sorted(hit))}")
                elif before:
                    lossy = [x for x in ast.walk(rv) if isinstance(x, ast.Call) and dotted(x.func).split(".")[-1] in _COERCIONS]
                    R.check("C18.c", f"`{','.join(sorted(hit))}` is only defaulted, not coerced, before validation", not (reads_self and lossy), h, c,
                            msg=f"{h.short}: `{unparse(c)[:70]}` converts the user's value of {sorted(hit)} before validate() sees it: an invalid value (wrong type, non-integer) is "
                                f"silently coerced instead of rejected", key=f"pre-validate-coerce:{','.join(sorted(hit))}")
    R.floor("C18.c", "assignments to validated fields in the constructor hook", n, 1)


def rule_d(ctx: Context, R: Reporter, cc: ClassInfo, v: FuncInfo):
    """C18.d  configured values reach the components: wherever the core builds an
    internal component, every constructor parameter that carries the name of a
    configuration field is supplied explicitly and from that field (or from a
    method of the core that reads it).  A parameter left to the component's own
    default makes the validated option silently ineffective."""
    fields = set(cc.fields())
    n = 0
    for fi in ctx.prog.functions.values():
        if fi.name != "__init__" or fi.cls is None or fi.cls is cc:
            continue
        # the wiring function: a constructor that receives the configuration object
        if not any(cc in [t for t in ctx.res.expr_types(fi, ast.Name(id=p, ctx=ast.Load())) if isinstance(t, ClassInfo)] for p in fi.params if p != "self"):
            continue
        flow = flow_of(fi.node)
        for nd in flow.cfg.stmt_nodes():
            for c in calls_in_node(nd):
                tg = [t for t in ctx.res.call_targets(fi, c) if isinstance(t, ClassInfo)]
                if len(tg) != 1 or tg[0] is cc:
                    continue
                ctor = ctx.prog.mro_lookup(tg[0], "__init__")
                if ctor is None:
                    continue
                ps = [p for p in ctor.params if p != "self"]
                for i, pn in enumerate(ps):
                    if pn not in fields:
                        continue
                    n += 1
                    arg = None
                    if i < len(c.args):
                        arg = c.args[i]
                    for k in c.keywords:
                        if k.arg == pn:
                            arg = k.value
                    if arg is None:
                        R.check("C18.d", f"{tg[0].name}({pn}=...) is supplied from the configuration", False, fi, c,
                                msg=f"{fi.short}: `{tg[0].name}(...)` is built without `{pn}`: the component falls back to its own default "
                                    f"({unparse(ctor.param_default(pn)) if ctor.param_default(pn) is not None else 'none'}) and the configured `{pn}` has no effect",
                                key=f"plumbing-missing:{tg[0].name}.{pn}")
                        continue
                    rx = ExprResolver(fi.node).resolve(arg, nd)
                    reads = any(isinstance(x, ast.Attribute) and x.attr == pn and "config" in norm_text(x.value) for x in ast.walk(rx))
                    if not reads and isinstance(rx, ast.Attribute) and isinstance(rx.value, ast.Name) and rx.value.id == "self":
                        m = ctx.prog.mro_lookup(fi.cls, rx.attr)
                        if m is not None and any(isinstance(x, ast.Attribute) and x.attr == pn and "config" in norm_text(x.value) for x in ast.walk(m.node)):
                            reads = True
                    R.check("C18.d", f"{tg[0].name}({pn}=...) is supplied from the configuration", reads, fi, c,
                            msg=f"{fi.short}: `{tg[0].name}({pn}={unparse(rx)[:40]})` does not pass the configured `{pn}`", key=f"plumbing:{tg[0].name}.{pn}")
    R.floor("C18.d", "component constructor parameters named like configuration fields", n, 12)
    # positional arguments are not name-crossed: an argument spelled like one parameter of the callee is not passed
    # in the position of another (swapped `periodic` / `reflective`, `u` / `x`, ...)
    n_pos = 0
    for fi in ctx.prog.functions.values():
        for (c, tg) in ctx.cg.sites.get(fi.qualname, []):
            callee = None
            for t in tg:
                if isinstance(t, FuncInfo):
                    callee = t
                elif isinstance(t, ClassInfo):
                    callee = ctx.prog.mro_lookup(t, "__init__")
            if callee is None or len([t for t in tg if isinstance(t, (FuncInfo, ClassInfo))]) != 1:
                continue
            # pure forwarding constructors `def __init__(self, *args, **kwargs): super().__init__(*args, **kwargs)`
            hops = 0
            while callee is not None and callee.node.args.vararg is not None and not [a for a in callee.node.args.args if a.arg not in ("self", "cls")] and callee.cls is not None and hops < 4:
                fwd = [x for x in ast.walk(callee.node) if isinstance(x, ast.Call) and isinstance(x.func, ast.Attribute) and x.func.attr == callee.name
                       and isinstance(x.func.value, ast.Call) and dotted(x.func.value.func) == "super" and any(isinstance(a, ast.Starred) for a in x.args)]
                nxt = None
                if fwd:
                    for b in ctx.prog.bases(callee.cls):
                        nxt = ctx.prog.mro_lookup(b, callee.name)
                        if nxt is not None:
                            break
                callee = nxt
                hops += 1
            if callee is None:
                continue
            ps = [p for p in callee.params]
            if callee.cls is not None and not callee.is_staticmethod and ps and ps[0] in ("self", "cls"):
                ps = ps[1:]
            for i, a in enumerate(c.args):
                if isinstance(a, ast.Starred) or i >= len(ps):
                    break
                nm = a.id if isinstance(a, ast.Name) else (a.attr if isinstance(a, ast.Attribute) else None)
                if nm is None:
                    continue
                n_pos += 1
                if nm != ps[i] and nm in ps:
                    R.check("C18.d", "positional arguments are not name-crossed", False, fi, c,
                            msg=f"{fi.short}: `{unparse(c)[:70]}` passes `{nm}` in the position of parameter `{ps[i]}` of {callee.short}, which also has a parameter `{nm}`: "
                                f"the two options are exchanged for this component", key=f"crossed-argument:{callee.short}:{nm}->{ps[i]}")
    # pass-through options: when a function exposes a parameter that a callee of its own also has (same name,
    # with a default), the call supplies it -- otherwise the caller's option is silently ignored
    n_pass = 0
    for fi in ctx.prog.functions.values():
        cps = {p for p in fi.params if p not in ("self", "cls")}
        if not cps:
            continue
        for (c, tg) in ctx.cg.sites.get(fi.qualname, []):
            ts = [t for t in tg if isinstance(t, (FuncInfo, ClassInfo))]
            if len(ts) != 1:
                continue
            callee = ts[0] if isinstance(ts[0], FuncInfo) else ctx.prog.mro_lookup(ts[0], "__init__")
            if callee is None or callee is fi:
                continue
            ps = [p for p in callee.params if p not in ("self", "cls")]
            has_star = any(isinstance(a, ast.Starred) for a in c.args) or any(k.arg is None for k in c.keywords)
            for i, q in enumerate(ps):
                if q in cps and callee.param_default(q) is not None:
                    n_pass += 1
                    arg = None
                    if i < len(c.args) and not isinstance(c.args[i], ast.Starred):
                        arg = c.args[i]
                    for k in c.keywords:
                        if k.arg == q:
                            arg = k.value
                    R.check("C18.d", f"{fi.short}: option `{q}` is passed on to {callee.short}", arg is not None or has_star, fi, c,
                            msg=f"{fi.short}: takes `{q}` but calls `{unparse(c)[:50]}` without it: {callee.short} uses its own default "
                                f"({unparse(callee.param_default(q))}) and the caller's `{q}` has no effect", key=f"pass-through:{fi.short}->{callee.short}:{q}")
    R.floor("C18.d", "pass-through options", n_pass, 6)
    R.analysed["C18.d:positional_name_arguments"] = n_pos
    R.check("C18.d", f"no name-crossed positional argument among {n_pos} positional name arguments of internal calls", True, None, None, key="crossed-argument-scan", loc="tempest/")


def rule_f(ctx: Context, R: Reporter, cc: ClassInfo, v: FuncInfo):
    """C18.f  validation sees what the user gave: wherever the configuration object is constructed from the parameters
    of a public constructor (the facade), every field that carries the name of such a parameter receives the parameter
    *as received* -- not re-bound, defaulted (`n = n or 2 * d`), clamped or cast on the way.  A value repaired before it
    reaches the configuration is never validated: the documented rejection does not happen."""
    fields = list(cc.fields())
    n = 0
    for fi in ctx.prog.functions.values():
        if fi.cls is cc or fi.cls is None:
            continue
        flow = None
        for (call, tg) in ctx.cg.sites.get(fi.qualname, []):
            if cc not in tg:
                continue
            flow = flow or flow_of(fi.node)
            at = flow.node_containing(call)
            given = {}
            for i, a in enumerate(call.args):
                if i < len(fields) and not isinstance(a, ast.Starred):
                    given[fields[i]] = a
            for k in call.keywords:
                if k.arg:
                    given[k.arg] = k.value
            for fld, a in given.items():
                if fld not in fi.params:
                    continue  # a value the constructor computes itself (the wrapped likelihood, ...)
                n += 1
                ok = isinstance(a, ast.Name) and a.id == fld and at is not None and all(d.kind == "param" for d in flow.reaching(at, fld))
                if not ok and at is not None:
                    # the parameter wrapped by a constructor of the library (the binding wrapper of the likelihood): the
                    # wrapper receives the parameter as given
                    rx = ExprResolver(fi.node).resolve(a, at)
                    if isinstance(rx, ast.Call) and any(isinstance(t, ClassInfo) for t in ctx.res.call_targets(fi, rx)) \
                            and any(isinstance(x, ast.Name) and x.id == fld for x in list(rx.args) + [k_.value for k_ in rx.keywords]) and all(d.kind == "param" for d in flow.reaching(at, fld)):
                        ok = True
                why = f"`{unparse(a)[:40]}`" if not (isinstance(a, ast.Name) and a.id == fld) else \
                    "re-bound before the call: " + "; ".join(norm_text(d.stmt)[:50] for d in (flow.reaching(at, fld) if at is not None else []) if d.kind != "param" and d.stmt is not None)
                R.check("C18.f", f"{fi.short}: `{fld}` reaches the configuration as the caller gave it", ok, fi, call,
                        msg=f"{fi.short}: the configuration is built with {fld}={why}, not with the `{fld}` the caller passed: an invalid value (0, a negative or fractional number, "
                            f"a wrong type) can be replaced before validation ever sees it, so construction succeeds where the documented rejection should happen", key=f"config-arg-as-given:{fi.short}:{fld}")
    R.floor("C18.f", "configuration fields supplied from same-named constructor parameters", n, 15)


def rule_e(ctx: Context, R: Reporter):
    """C18.e  the documented cap n_max_steps * n_dim bounds the number of MCMC steps for every valid pair
    (n_steps, n_max_steps), including n_steps > n_max_steps: where the kernel combines the floor, the adaptive
    estimate and the cap, the cap is applied last (outermost `min(., cap)`)."""
    from .c07 import kernel_base

    base = kernel_base(ctx)
    n = 0
    for c in [base] + ctx.prog.subclasses(base):
        for m in c.methods.values():
            fl = flow_of(m.node)
            rs = ExprResolver(m.node)
            for r in walk_no_nested(m.node):
                if not isinstance(r, ast.Return) or r.value is None:
                    continue
                rx = rs.resolve(r.value, fl.node_containing(r))
                if "n_max" not in norm_text(rx) or "n_steps" not in norm_text(rx):
                    continue
                e = rx
                while isinstance(e, ast.Call) and dotted(e.func) in ("int", "float", "np.int64", "round") and e.args:
                    e = e.args[0]
                n += 1
                ok = isinstance(e, ast.Call) and dotted(e.func).split(".")[-1] in ("min", "minimum") and len(e.args) == 2 and \
                    any("n_max" in norm_text(a) and "n_steps" not in norm_text(a) for a in e.args)
                R.check("C18.e", "the step cap n_max_steps * n_dim is applied after the floor", ok, m, r,
                        msg=f"{m.short}: `{unparse(r)[:80]}` does not end in min(., n_max * n_dim): for n_steps > n_max_steps (a valid combination) the floor n_steps * n_dim wins over "
                            f"the documented cap and an iteration runs more steps / likelihood calls than n_max_steps allows", key=f"cap-last:{m.short}")
    R.floor("C18.e", "returns combining the step floor and the step cap", n, 1)


def run(ctx: Context, R: Reporter):
    cc = config_class(ctx)
    v = validate_fn(ctx, cc)
    R.guard(rule_a, ctx, R, cc, v)
    R.guard(rule_b, ctx, R, cc, v)
    R.guard(rule_c, ctx, R, cc, v)
    R.guard(rule_d, ctx, R, cc, v)
    R.guard(rule_e, ctx, R)
    R.guard(rule_f, ctx, R, cc, v)


def variants():
    from ..variants import Variant, alpha_rename, delete_stmt, edit, insert_before, replace_expr, replace_if, replace_stmt

    cf = "tempest/config.py"
    return [
        Variant("f-facade-defaults-falsy-particle-count", "bad", insert_before("tempest/sampler.py", "Sampler.__init__", "config = SamplerConfig(", "n_particles = n_particles or 2 * n_dim"), ["C18.f"], quick=True),
        Variant("f-benign-facade-local-copy", "benign", insert_before("tempest/sampler.py", "Sampler.__init__", "config = SamplerConfig(", "requested_particles = n_particles")),
        Variant("e-floor-after-cap", "bad", replace_stmt("tempest/mcmc.py", "BaseMCMCRunner._calculate_adaptive_steps", "return int(min(n_steps_final, n_steps_max))", "return int(max(n_steps_min, min(n_steps_adaptive, n_steps_max)))"), ["C18.e"], quick=True),
        Variant("c-coerce-before-validate", "bad", insert_before(cf, "SamplerConfig.__post_init__", "self.validate()", "if self.n_particles is not None:\n    object.__setattr__(self, 'n_particles', int(self.n_particles))"), ["C18.c"], quick=True),
        Variant("c-rebind-after-validate", "bad", _after_validate("if self.periodic is not None:\n    object.__setattr__(self, 'periodic', sorted(self.periodic))"), ["C18.c"]),
        Variant("c-default-before-validate-benign", "benign", insert_before(cf, "SamplerConfig.__post_init__", "self.validate()", "if self.resample is None:\n    object.__setattr__(self, 'resample', 'mult')")),
        Variant("a-ndim-strict", "bad", replace_expr(cf, "SamplerConfig.validate", "self.n_dim <= 0", "self.n_dim < 0"), ["C18.a"], quick=True),
        Variant("a-nparticles-dropped", "bad", replace_if(cf, "SamplerConfig.validate", "self.n_particles <= 0", "pass"), ["C18.a"], quick=True),
        Variant("a-ess-ratio-strict", "bad", replace_expr(cf, "SamplerConfig.validate", "self.ess_ratio <= 0", "self.ess_ratio < 0"), ["C18.a"]),
        Variant("a-vv-only-with-clustering", "bad", replace_expr(cf, "SamplerConfig.validate", "self.volume_variation <= 0", "self.volume_variation <= 0 and self.clustering"), ["C18.a"]),
        Variant("a-vectorize-or", "bad", replace_expr(cf, "SamplerConfig.validate", "self.vectorize and self.blobs_dtype is not None", "self.vectorize and self.blobs_dtype is None"), ["C18.a"]),
        Variant("a-range-open", "bad", replace_expr(cf, "SamplerConfig.validate", "0 <= i < self.n_dim", "0 <= i <= self.n_dim"), ["C18.a"], quick=True),
        Variant("a-raise-conditional", "bad", edit(cf, "SamplerConfig.validate", _raise_needs_two), ["C18.a"]),
        Variant("a-validate-skipped", "bad", replace_stmt(cf, "SamplerConfig.__post_init__", "self.validate()", "if self.n_particles is not None:\n    self.validate()"), ["C18.a"]),
        Variant("a-likelihood-probe-in-ctor", "bad", insert_before("tempest/steps/mutate.py", "Mutator.__init__", "self.state = state", "probe = log_likelihood(prior_transform(np.full((1, n_dim), 0.5)[0])[None, :])"), ["C18.a"]),
        Variant("b-resample-typo", "bad", replace_expr("tempest/steps/resample.py", "Resampler.run", "self.resample == 'syst'", "self.resample == 'sys'"), ["C18.b"], quick=True),
        Variant("b-accept-new-resampler", "bad", replace_expr(cf, "SamplerConfig.validate", "['mult', 'syst']", "['mult', 'syst', 'strat']"), ["C18.b"]),
        Variant("benign-rename-errors", "benign", alpha_rename(cf, "SamplerConfig.validate", "errors", "problems"), quick=True),
    ]


def _raise_needs_two(node, tree):
    for n in ast.walk(node):
        if isinstance(n, ast.If) and isinstance(n.test, ast.Name) and any(isinstance(x, ast.Raise) for x in n.body):
            n.test = ast.parse(f"len({n.test.id}) > 1", mode="eval").body
            return True
    return False


def _after_validate(src: str):
    from ..variants import edit, parse_stmts

    def fn(node, tree):
        for i, st in enumerate(node.body):
            if isinstance(st, ast.Expr) and isinstance(st.value, ast.Call) and isinstance(st.value.func, ast.Attribute) and st.value.func.attr == "validate":
                node.body[i + 1:i + 1] = parse_stmts(src)
                return True
        return False

    return edit("tempest/config.py", "SamplerConfig.__post_init__", fn)
