"""C04  Importance weights follow the balance-heuristic mixture formula.

Anchor by role: the unique state-manager method that reads history keys beta,
logz, logl and returns a pair.

  C04.a  must-depend: the mixture denominator depends on history beta, history
         logz, the per-iteration batch sizes and their total (as normalised
         log mixture weights log n_t - log N); the numerator on the target beta
         and the flattened logl; the evidence on the unnormalised log-weights and
         their count
  C04.b  shift and axis typing (A7): with logl: Shift(1)[S], beta: Inv[T],
         logz: Shift(beta_t)[T] the body types as b: Inv[S,T], a symmetric
         reduction consumes axis T, logw: Shift(beta_final)[S], logz_new:
         Shift(beta_final), normalised logw: Inv & Norm
  C04.c  log-domain discipline: no exponential of a value that is not shift-free
  C04.e  memo invalidation: every attribute the history-owning class memoises
         (tested for emptiness and filled by one method) is reset by every method
         that mutates an attribute the memo was computed from
  C04.d  all mixture components are used: history vectors along T are never
         sub-selected, merged, sorted or special-cased by length
"""
from __future__ import annotations

import ast
from typing import Dict, List, Optional, Tuple

from ..dataflow import Resolver as ExprResolver
from ..dataflow import expr_leaves, flow_of
from ..engine import Context, Reporter
from ..model import AnalysisError, FuncInfo, dotted, norm_text, walk_no_nested
from ..shift import ST, ShiftInterp, inv, p_atom, p_const, p_str, shift
from ..util import call_arg, calls_in, const_value, unparse
from .c12 import _weights_fn

PROP = "C04"
EXPLANATION = (
    "Abstract interpretation of the weight function in a shift/axis type system: log-likelihoods are Shift(1) along the "
    "sample axis, history betas are coefficient atoms along the iteration axis and recorded evidences Shift(beta_t); the "
    "analysis derives that every mixture column is shift-free before the reduction over iterations (a dropped normaliser "
    "is a column-dependent shift under one reduction), that the reduction consumes the iteration axis and matches the "
    "numerator's sample axis, that log-weights and evidence shift by exactly beta_final and the normalised weights are "
    "shift-free with log-sum-exp zero; no exponential is taken of a quantity that is not shift-free (finite for "
    "log-likelihoods of any magnitude); the denominator depends on every component's beta, evidence and normalised batch "
    "size and no component is dropped, merged or special-cased. Numerical equality with the formula (e.g. a sign error "
    "that preserves dependence and types) is not decided."
    " Also: the log-sum-exp over the components reduces the whole component matrix (no column selection) and the mixture log-density is not clamped before it is subtracted."
)
ASSUMPTIONS = ["recorded logz of iteration t shifts by beta_t * c (the guarantee side is decided under C10)", "numpy logaddexp.reduce is an exact log-sum-exp"]


def make_source(ctx: Context, f: FuncInfo):
    from ..memo import class_memos

    memo_attrs = {m.attr for m in class_memos(ctx, f.cls)[0]} if f.cls is not None else set()

    def source(e: ast.expr, env) -> Optional[ST]:
        # a value read back from a memo attribute: its type is whatever was stored; the stored value is typed
        # where it is computed and its freshness is C04.e's obligation
        if isinstance(e, ast.Attribute) and isinstance(e.value, ast.Name) and e.value.id == "self" and e.attr in memo_attrs:
            return ST("unknown", why=f"memo:{e.attr}")
        if isinstance(e, ast.Call) and isinstance(e.func, ast.Attribute) and e.func.attr in ("get_history",) and e.args and isinstance(e.args[0], ast.Constant):
            k = e.args[0].value
            flat = any(kw.arg == "flat" and const_value(kw.value) is True for kw in e.keywords) or (len(e.args) > 2 and const_value(e.args[2]) is True)
            if k == "beta":
                return inv(("T",), cval=p_atom("bt"))
            if k == "logz":
                return shift(p_atom("bt"), ("T",))
            if k == "logl":
                return shift(p_const(1), ("S",) if flat else ("T", "S"))
            return inv()
        if isinstance(e, ast.Call) and isinstance(e.func, ast.Attribute) and e.func.attr == "get" and isinstance(e.func.value, ast.Attribute) and e.func.value.attr == "_history" and e.args and isinstance(e.args[0], ast.Constant):
            return _hist(e.args[0].value)
        if isinstance(e, ast.Subscript) and isinstance(e.value, ast.Attribute) and e.value.attr == "_history" and isinstance(e.slice, ast.Constant):
            return _hist(e.slice.value)
        # [len(per_iter[t]) for t in range(len(beta))] -> one entry per iteration
        if isinstance(e, ast.ListComp) and len(e.generators) == 1:
            it = e.generators[0].iter
            if isinstance(e.elt, ast.Call) and dotted(e.elt.func) == "len":
                return inv(("T",))
        return None

    def _hist(k):
        if k == "beta":
            return inv(("T",), cval=p_atom("bt"))
        if k == "logz":
            return shift(p_atom("bt"), ("T",))
        if k == "logl":
            return shift(p_const(1), ("T", "S"))
        return inv()

    return source


class C04Interp(ShiftInterp):
    def _truth(self, t, env):
        # `logw.size` / `len(logw)` of the sample vector: non-empty (the empty history returns early)
        if isinstance(t, ast.Attribute) and t.attr == "size":
            return True
        if isinstance(t, ast.BoolOp) and isinstance(t.op, ast.And):
            vs = [self._truth(v, env) for v in t.values]
            if any(v is False for v in vs):
                return False
            if all(v is True for v in vs):
                return True
            return None
        if isinstance(t, ast.BoolOp) and isinstance(t.op, ast.Or):
            vs = [self._truth(v, env) for v in t.values]
            if any(v is True for v in vs):
                return True
            if all(v is False for v in vs):
                return False
            return None
        if isinstance(t, ast.UnaryOp) and isinstance(t.op, ast.Not):
            v = self._truth(t.operand, env)
            return None if v is None else (not v)
        return super()._truth(t, env)


def type_weight_fn(ctx: Context, f: FuncInfo, normalize: bool):
    bf = f.params[1] if len(f.params) > 1 else "beta_final"
    norm_p = next((p for p in f.params if "normal" in p), None)
    consts: Dict[str, object] = {bf: inv((), cval=p_atom("bf"))}
    if norm_p:
        consts[norm_p] = normalize
    si = C04Interp(lambda c: ctx.res.external_name(f, c), source=make_source(ctx, f), const_params=consts)
    si.strict_exp = True
    rets, env = si.run(f.node)
    return si, rets, env


def rule_b(ctx: Context, R: Reporter, f: FuncInfo):
    si, rets, env = type_weight_fn(ctx, f, True)
    si2, rets2, env2 = type_weight_fn(ctx, f, False)
    R.analysed["C04.b:typed_statements"] = [f"{n}: {t!r}" for (n, t, s) in si.typed][:20]
    main = [(r, t) for (r, t) in rets if t.kind == "tuple" and len(t.items) == 2 and isinstance(r.value, ast.Tuple) and not all(isinstance(x, (ast.Constant, ast.UnaryOp)) or (isinstance(x, ast.Call)) for x in r.value.elts)]
    R.floor("C04.b", "typed statements of the weight function", len(si.typed), 8)
    R.floor("C04.b", "non-trivial returns", len(main), 1)
    seen = set()
    for c in si.conflicts:
        k = norm_text(c.node)[:80] if c.node is not None else c.why
        if k in seen:
            continue
        seen.add(k)
        R.check("C04.b", "no shift/axis conflict in the weight function", False, f, c.node if c.node is not None else f.node,
                msg=f"{f.short}: {c.why} at `{unparse(c.node)[:70] if c.node is not None else ''}`", key=f"conflict:{k}")
    untypable = []
    n_before = len(R.violated())
    for (r, t) in main:
        lw, lz = t.items
        bad_comp = False
        if any(comp.kind == "unknown" and comp.why.startswith("memo:") for comp in (lw, lz)):
            R.analysed["C04.b:returns_of_memoised_values"] = R.analysed.get("C04.b:returns_of_memoised_values", 0) + 1
            continue
        for comp, name in ((lw, "log-weights"), (lz, "evidence")):
            if comp.kind == "unknown":
                untypable.append(f"{name}: {comp.why}")
                bad_comp = True
        if bad_comp:
            continue
        ok_w = lw.kind == "shift" and not lw.k and lw.norm
        R.check("C04.b", "normalised log-weights are shift-free with log-sum-exp zero", ok_w, f, r,
                msg=f"{f.short}: returned log-weights have type {lw!r}; they must be Inv & Norm (unchanged when the likelihood is rescaled, summing to one)", key="logw-normalised-type")
        ok_ax = lw.axes in (("S",), None)
        R.check("C04.b", "log-weights are indexed by the sample axis", ok_ax, f, r, msg=f"{f.short}: log-weights have axes {lw.axes} (expected the sample axis)", key="logw-axis")
        ok_z = lz.kind == "shift" and lz.k == p_atom("bf")
        R.check("C04.b", "the evidence shifts by exactly beta_final * c", ok_z, f, r,
                msg=f"{f.short}: returned evidence has type {lz!r}; it must be Shift(bf) (log Z at beta_final shifts by beta_final*c)", key="logz-type")
    main2 = [(r, t) for (r, t) in rets2 if t.kind == "tuple" and len(t.items) == 2 and (r, t) and isinstance(r.value, ast.Tuple)]
    for (r, t) in main2:
        lw = t.items[0]
        if isinstance(r.value.elts[0], ast.Call):
            continue
        if lw.kind == "unknown":
            continue
        ok = lw.kind == "shift" and lw.k == p_atom("bf")
        R.check("C04.b", "unnormalised log-weights shift by beta_final * c", ok, f, r, msg=f"{f.short}: unnormalised log-weights have type {lw!r}, expected Shift(bf)", key="logw-unnormalised-type")
    # the mixture matrix before the reduction is shift-free per column
    red = [c for c in calls_in(f.node) if (ctx.res.external_name(f, c) or "") in ("numpy.logaddexp.reduce", "scipy.special.logsumexp") and any(k.arg == "axis" for k in c.keywords)]
    R.check("C04.b", "the mixture over iterations is a symmetric log-sum-exp reduction along one axis", len(red) >= 1, f, red[0] if red else f.node,
            msg=f"{f.short}: no log-sum-exp reduction with an explicit axis over the component matrix", key="reduction-present")
    # the reduction runs over every component: its operand is not the matrix with some columns (iterations) cut out
    rs_ = ExprResolver(f.node, max_depth=6)
    for c in red:
        axv = const_value(next(k.value for k in c.keywords if k.arg == "axis"))
        if not c.args or not isinstance(axv, int):
            continue
        nd_ = flow_of(f.node).node_containing(c)
        op = c.args[0]
        opr = rs_.resolve(op, nd_) if isinstance(op, ast.Name) and nd_ is not None else op
        while isinstance(opr, ast.Subscript):
            idx = list(opr.slice.elts) if isinstance(opr.slice, ast.Tuple) else [opr.slice]
            ell = next((i for i, x in enumerate(idx) if isinstance(x, ast.Constant) and x.value is Ellipsis), None)
            pos = axv if axv >= 0 else None
            cut = None
            if pos is not None and ell is None and pos < len(idx):
                cut = idx[pos]
            elif axv == -1 and idx and (ell is not None or len(idx) >= 2):
                cut = idx[-1]
            full = cut is None or (isinstance(cut, ast.Slice) and cut.lower is None and cut.upper is None and cut.step is None) or (isinstance(cut, ast.Constant) and cut.value is Ellipsis)
            if not full:
                R.check("C04.d", "mixture components are not sub-selected, merged or reordered", False, f, c,
                        msg=f"{f.short}: `{unparse(c)[:70]}` reduces over a selection `{unparse(cut)[:30]}` of the components: every stored iteration is a term of the mixture denominator "
                            f"for every sample (a component negligible at the extreme log-likelihoods can dominate in between)", key="component-columns-selected")
                break
            opr = opr.value
    # C04.c hazards
    seenh = set()
    for (node, t) in si.hazards:
        k = norm_text(node)[:80]
        if k in seenh:
            continue
        seenh.add(k)
        R.check("C04.c", "exponentials are only taken of shift-free values", False, f, node,
                msg=f"{f.short}: `{unparse(node)[:70]}` exponentiates a value of type {t!r}: it overflows/underflows for log-likelihoods of large magnitude "
                    f"(weights and evidence must stay finite for |logL| up to 1e6); use log-sum-exp reductions", key=f"exp-hazard:{k}")
    lin = [c for c in calls_in(f.node) if (ctx.res.external_name(f, c) or "") in ("numpy.exp", "numpy.power", "math.exp")]
    R.check("C04.c", f"log-domain discipline: {len(lin)} exponential call(s), all of shift-free arguments", not si.hazards, f, f.node, key="exp-scan")
    # C04.d selectors / special cases
    for (node, name) in si.selectors:
        R.check("C04.d", "mixture components are not sub-selected, merged or reordered", False, f, node,
                msg=f"{f.short}: `{unparse(node)[:70]}` applies {name} to a per-iteration history vector: every iteration is its own mixture component with its own logZ_t and n_t", key=f"selector:{norm_text(node)[:60]}")
    flow = flow_of(f.node)
    for nd in flow.cfg.stmt_nodes():
        if nd.kind != "test":
            continue
        for cmpn in ast.walk(nd.ast):
            if isinstance(cmpn, ast.Compare) and len(cmpn.ops) == 1:
                l = norm_text(cmpn.left)
                c = const_value(cmpn.comparators[0])
                is_len = l.endswith(".size") or l.startswith("len(") or ".shape[" in l
                if is_len and isinstance(c, int) and not (c == 0 and isinstance(cmpn.ops[0], (ast.Eq, ast.LtE, ast.Lt))):
                    R.check("C04.d", "no special case on the number of iterations", False, f, cmpn,
                            msg=f"{f.short}: branch on `{unparse(cmpn)}`: the formula is the same for every number of stored iterations (a shortcut for T=1 typically drops -logZ_0)",
                            key=f"length-special-case:{norm_text(cmpn)}")
    R.check("C04.d", "history vectors are consumed whole (no selector call, no length special case)", not si.selectors, f, f.node, key="components-whole")
    if untypable and len(R.violated()) == n_before:
        raise AnalysisError(f"C04.b: not typable and no rule explains it: {untypable}")


def rule_a(ctx: Context, R: Reporter, f: FuncInfo):
    flow = flow_of(f.node)
    rets = [n for n in flow.cfg.stmt_nodes() if n.kind == "stmt" and isinstance(n.stmt, ast.Return) and isinstance(n.stmt.value, ast.Tuple) and all(isinstance(x, ast.Name) for x in n.stmt.value.elts)]
    R.floor("C04.a", "main return", len(rets), 1)
    rn = rets[0]
    rs = ExprResolver(f.node, max_depth=20)
    lw_name, lz_name = [x.id for x in rn.stmt.value.elts]
    # unnormalised log-weights: the definition of logw that is a difference A - B
    defs = [d for ds in flow.defs_at.values() for d in ds if d.name == lw_name and d.kind == "assign" and isinstance(d.value, ast.BinOp) and isinstance(d.value.op, ast.Sub)]
    base = None
    for d in defs:
        names = {x.id for x in ast.walk(d.value) if isinstance(x, ast.Name)}
        if lw_name not in names:
            base = d
    if base is None:
        raise AnalysisError("C04.a: definition `logw = numerator - denominator` not found")
    num = rs.resolve(base.value.left, base.node)
    den = rs.resolve(base.value.right, base.node)

    def reads(e, key):
        for c in ast.walk(e):
            if isinstance(c, ast.Call) and isinstance(c.func, ast.Attribute) and c.func.attr == "get_history" and c.args and const_value(c.args[0]) == key:
                return True
            if isinstance(c, ast.Call) and isinstance(c.func, ast.Attribute) and c.func.attr == "get" and "_history" in norm_text(c.func.value) and c.args and const_value(c.args[0]) == key:
                return True
            if isinstance(c, ast.Subscript) and "_history" in norm_text(c.value) and const_value(c.slice) == key:
                return True
        return False

    bf = f.params[1]
    checks = [
        ("numerator depends on the requested beta", bf in {x.id for x in ast.walk(num) if isinstance(x, ast.Name)}, "num-beta-final"),
        ("numerator depends on the stored log-likelihoods", reads(num, "logl"), "num-logl"),
        ("denominator depends on every iteration's beta", reads(den, "beta"), "den-beta"),
        ("denominator depends on every iteration's logZ", reads(den, "logz"), "den-logz"),
        ("denominator depends on the stored log-likelihoods", reads(den, "logl"), "den-logl"),
    ]
    # the denominator is the log-sum-exp itself, not a clamped version of it
    for c in ast.walk(den):
        if isinstance(c, ast.Call) and (ctx.res.external_name(f, c) or "") in ("numpy.maximum", "numpy.minimum", "numpy.fmax", "numpy.fmin", "numpy.clip", "numpy.nan_to_num", "numpy.where") \
                and any(isinstance(x, ast.Call) and (ctx.res.external_name(f, x) or "") in ("numpy.logaddexp.reduce", "scipy.special.logsumexp") for a in c.args for x in ast.walk(a)):
            R.check("C04.a", "the denominator is the mixture log-density itself (no floor / ceiling on it)", False, f, base.stmt,
                    msg=f"{f.short}: the mixture log-density is passed through `{unparse(c.func)}` with an absolute bound before it is subtracted: a sample whose mixture density lies beyond the "
                        f"bound (log-likelihoods of large magnitude, histories without a prior-level iteration) gets a weight that is not the balance-heuristic weight", key="den-clamped")
    for (desc, ok, key) in checks:
        R.check("C04.a", desc, ok, f, base.stmt, msg=f"{f.short}: in `{unparse(base.stmt)}` the {desc.split(' depends')[0]} does not depend on {desc.split('on ', 1)[1]}", key=key)
    # batch-size mixture weights: log(n_t) - log(N) with N = sum n_t, n_t = len of iteration t
    ok_mix = False
    detail = ""
    for s in ast.walk(den):
        if isinstance(s, ast.BinOp) and isinstance(s.op, ast.Sub) and isinstance(s.left, ast.Call) and isinstance(s.right, ast.Call) \
                and (ctx.res.external_name(f, s.left) or "") == "numpy.log" and (ctx.res.external_name(f, s.right) or "") == "numpy.log":
            n_t = s.left.args[0]
            N = s.right.args[0]
            per_iter = any(isinstance(c, ast.Call) and dotted(c.func) == "len" for c in ast.walk(n_t)) and reads(n_t, "logl")
            total = norm_text(n_t) in norm_text(N) and any((isinstance(c, ast.Call) and ((ctx.res.external_name(f, c) or "") in ("numpy.sum", "builtins.sum") or (isinstance(c.func, ast.Attribute) and c.func.attr == "sum"))) for c in ast.walk(N))
            detail = f"log({unparse(n_t)[:40]}) - log({unparse(N)[:40]})"
            if per_iter and total:
                ok_mix = True
        if isinstance(s, ast.Call) and (ctx.res.external_name(f, s) or "") == "numpy.log" and s.args and isinstance(s.args[0], ast.BinOp) and isinstance(s.args[0].op, ast.Div):
            q = s.args[0]
            per_iter = any(isinstance(c, ast.Call) and dotted(c.func) == "len" for c in ast.walk(q.left)) and reads(q.left, "logl")
            total = norm_text(q.left) in norm_text(q.right)
            if per_iter and total:
                ok_mix = True
    R.check("C04.a", "components are weighted by their normalised batch sizes log(n_t) - log(sum n_t)", ok_mix, f, base.stmt,
            msg=f"{f.short}: the denominator does not contain log n_t - log N with n_t the stored batch sizes and N their sum ({detail or 'no log-ratio of batch sizes found'}): "
                f"with unequal batch sizes (reachable via resume) the balance-heuristic weights are wrong", key="den-batch-weights")
    # evidence = LSE(unnormalised logw) - log(count)
    zdefs = [d for ds in flow.defs_at.values() for d in ds if d.name == lz_name and d.kind == "assign"]
    ok_z = False
    for d in zdefs:
        v = d.value
        lse_at = d.node
        if isinstance(v, ast.BinOp) and isinstance(v.op, ast.Sub) and isinstance(v.left, ast.Name):
            # the log-sum-exp bound to a local first (`log_norm = logsumexp(logw)`, shared with the normalisation)
            ld = flow.reaching(d.node, v.left.id)
            if len(ld) == 1 and ld[0].kind == "assign" and isinstance(ld[0].value, ast.Call) and not ld[0].path and ld[0].node is not None:
                v = ast.BinOp(left=ld[0].value, op=v.op, right=v.right)
                lse_at = ld[0].node
        if isinstance(v, ast.BinOp) and isinstance(v.op, ast.Sub) and isinstance(v.left, ast.Call) and (ctx.res.external_name(f, v.left) or "") in ("numpy.logaddexp.reduce", "scipy.special.logsumexp") \
                and v.left.args and isinstance(v.left.args[0], ast.Name) and v.left.args[0].id == lw_name and any(x.node is base.node for x in flow.reaching(lse_at, lw_name)) and len(flow.reaching(lse_at, lw_name)) == 1:
            cnt = v.right
            if isinstance(cnt, ast.Call) and (ctx.res.external_name(f, cnt) or "") == "numpy.log" and cnt.args:
                c0 = rs.resolve(cnt.args[0], d.node)
                t = norm_text(c0)
                if t in (f"{lw_name}.size", f"len({lw_name})", f"{lw_name}.shape[0]") or ("sum" in t and reads(c0, "logl")):
                    ok_z = True
    R.check("C04.a", "the evidence is the log of the mean unnormalised weight", ok_z, f, zdefs[0].stmt if zdefs else rn.stmt,
            msg=f"{f.short}: `{unparse(zdefs[0].stmt) if zdefs else None}` is not logsumexp(unnormalised logw) - log(number of samples)", key="evidence-mean")


def rule_f(ctx: Context, R: Reporter, f: FuncInfo):
    """C04.f  orientation (sign x monotonicity along the path from the result to each ingredient): the
    un-normalised log-weight increases with the numerator term beta_final*logL and with every recorded
    evidence, decreases with every component's tempered log-likelihood term and batch size and increases
    with the total count; the evidence increases with the log-weights and decreases with the sample count.
    A sign error that keeps every dependence and every shift type (`b - log(n_t/N)`, `A + B`,
    `+ log(size)`) flips one of these orientations."""
    from ..dataflow import Resolver as _Res
    from ..mono import path_signs

    flow = flow_of(f.node)
    rs = _Res(f.node)
    bfp = f.params[1] if len(f.params) > 1 else "beta_final"

    def txt(e):
        return norm_text(e)

    def is_hist(e, key):
        return (isinstance(e, ast.Call) and isinstance(e.func, ast.Attribute) and e.func.attr in ("get_history", "get") and e.args and const_value(e.args[0]) == key) or \
               (isinstance(e, ast.Subscript) and isinstance(e.value, ast.Attribute) and e.value.attr == "_history" and const_value(e.slice) == key)

    def is_counts(e):
        # [len(per_iter[t]) for t in ...] (possibly wrapped in np.array)
        # ... or the same counts produced lazily: np.fromiter((len(per_iter[t]) for t in ...), dtype=int, count=...)
        return isinstance(e, (ast.ListComp, ast.GeneratorExp)) and isinstance(e.elt, ast.Call) and dotted(e.elt.func) == "len"

    def is_total(e):
        if isinstance(e, ast.Call) and ((isinstance(e.func, ast.Attribute) and e.func.attr == "sum" and any(is_counts(x) for x in ast.walk(e.func.value))) or
                                        (dotted(e.func) in ("np.sum", "sum", "numpy.sum") and e.args and any(is_counts(x) for x in ast.walk(e.args[0])))):
            return True
        return False

    def sign_of(e):
        v = const_value(e)
        if isinstance(v, (int, float)) and not isinstance(v, bool):
            return 1 if v > 0 else (-1 if v < 0 else 0)
        t = txt(e)
        if isinstance(e, ast.Name) and e.id == bfp:
            return 1
        if any(is_hist(x, "beta") for x in ast.walk(e)) and not any(isinstance(x, (ast.BinOp, ast.UnaryOp)) for x in ast.walk(e)):
            return 1
        if is_counts(e) or is_total(e) or t.endswith(".size") or t.startswith("len("):
            return 1
        if isinstance(e, ast.Subscript):
            return sign_of(e.value)
        if isinstance(e, ast.Call) and dotted(e.func).split(".")[-1] in ("asarray", "array", "float", "fromiter", "list", "tuple") and e.args:
            return sign_of(e.args[0])
        return None

    # the defining statements of the un-normalised log-weights and of the evidence: found from the return tuple
    rets = [n for n in flow.cfg.stmt_nodes() if n.kind == "stmt" and isinstance(n.stmt, ast.Return) and isinstance(n.stmt.value, ast.Tuple) and len(n.stmt.value.elts) == 2
            and all(isinstance(x, ast.Name) for x in n.stmt.value.elts)]
    if not rets:
        raise AnalysisError("C04.f: return (logw, logz) by name not found")
    rn = rets[-1]
    lw_name, lz_name = (x.id for x in rn.stmt.value.elts)
    lw_defs = [d for d in flow.reaching(rn, lw_name) if d.kind == "assign" and d.value is not None and lw_name not in {x.id for x in ast.walk(d.value) if isinstance(x, ast.Name)}]
    lz_defs = [d for d in flow.reaching(rn, lz_name) if d.kind == "assign" and d.value is not None]
    if len(lw_defs) != 1 or len(lz_defs) != 1:
        raise AnalysisError(f"C04.f: defining statements of the returned log-weights / evidence not unique ({len(lw_defs)}, {len(lz_defs)})")
    lw = rs.resolve(lw_defs[0].value, lw_defs[0].node)
    is_logl = lambda e: is_hist(e, "logl")  # noqa: E731

    def num_term(e):  # logL * beta_final
        return isinstance(e, ast.BinOp) and isinstance(e.op, ast.Mult) and any(isinstance(x, ast.Name) and x.id == bfp for x in ast.walk(e)) and any(is_logl(x) for x in ast.walk(e))

    def den_term(e):  # logL * beta_t
        return isinstance(e, ast.BinOp) and isinstance(e.op, ast.Mult) and any(is_hist(x, "beta") for x in ast.walk(e)) and any(is_logl(x) for x in ast.walk(e)) and not num_term(e)

    wants = [
        ("numerator beta_final*logL", num_term, +1, None),
        ("component term beta_t*logL", den_term, -1, None),
        ("recorded evidences logZ_t", lambda e: is_hist(e, "logz"), +1, None),
        ("batch sizes n_t", is_counts, -1, is_total),
        ("total count N", is_total, +1, None),
    ]
    n = 0
    for (what, pred, want, opaque) in wants:
        hits = path_signs(lw, pred, sign_of, opaque)
        if not hits:
            raise AnalysisError(f"C04.f: `{what}` not found in the resolved log-weight expression `{unparse(lw)[:80]}`")
        for (node, sgn, why) in hits:
            n += 1
            if sgn is None:
                raise AnalysisError(f"C04.f: orientation of the log-weight in `{what}` not decidable ({why})")
            R.check("C04.f", f"the log-weight is {'increasing' if want > 0 else 'decreasing'} in the {what}", sgn == want, f, lw_defs[0].stmt,
                    msg=f"{f.short}: along `{unparse(lw)[:110]}` the log-weight {'increases' if sgn > 0 else 'decreases'} with the {what} (`{unparse(node)[:40]}`); the balance-heuristic "
                        f"formula beta*logL - log sum_t (n_t/N) exp(beta_t*logL - logZ_t) requires the opposite", key=f"orientation:{what}")
    lz = lz_defs[0].value
    lzr = rs.resolve(lz, lz_defs[0].node, bound={lw_name})
    for (what, pred, want) in (("log-weights", lambda e: isinstance(e, ast.Name) and e.id == lw_name and not False, +1),
                               ("sample count", lambda e: (isinstance(e, ast.Attribute) and e.attr == "size") or (isinstance(e, ast.Call) and dotted(e.func) == "len"), -1)):
        hits = path_signs(lzr, pred, sign_of, (lambda e: isinstance(e, ast.Attribute) and e.attr == "size") if what == "log-weights" else None)
        if not hits:
            raise AnalysisError(f"C04.f: `{what}` not found in the evidence expression `{unparse(lzr)[:80]}`")
        for (node, sgn, why) in hits:
            n += 1
            if sgn is None:
                raise AnalysisError(f"C04.f: orientation of the evidence in the {what} not decidable ({why})")
            R.check("C04.f", f"the evidence is {'increasing' if want > 0 else 'decreasing'} in the {what}", sgn == want, f, lz_defs[0].stmt,
                    msg=f"{f.short}: `{unparse(lzr)[:90]}` {'increases' if sgn > 0 else 'decreases'} with the {what}; log of the *mean* un-normalised weight requires the opposite",
                    key=f"orientation-evidence:{what}")
    R.floor("C04.f", "oriented occurrences", n, 7)


def rule_g(ctx: Context, R: Reporter, f: FuncInfo):
    """C04.g  the flat index space of the weights is the concatenation of batches of *any* sizes: nowhere is a flat
    index (or the flat sample axis) decomposed with the length of one particular stored batch as the stride
    (`divmod(idx, len(batches[0]))`, `idx // n0`, `reshape(T, n0)`): that is exact only for equal batch sizes,
    which a resumed run with another particle count does not have."""
    from ..dataflow import Resolver as _Res

    def one_batch_len(e: ast.AST) -> Optional[str]:
        for x in ast.walk(e):
            tgt = None
            if isinstance(x, ast.Call) and dotted(x.func) == "len" and x.args and isinstance(x.args[0], ast.Subscript):
                tgt = x.args[0]
            elif isinstance(x, ast.Subscript) and isinstance(x.value, ast.Attribute) and x.value.attr == "shape" and isinstance(x.value.value, ast.Subscript):
                tgt = x.value.value
            if tgt is not None and isinstance(tgt.slice, (ast.Constant, ast.UnaryOp)):
                base = norm_text(tgt.value)
                if "_history" in base or "get_history(" in base and "flat=True" not in base:
                    return unparse(x)[:40]
        return None

    n = 0
    for fi in ctx.prog.functions.values():
        rs = None
        flow = None
        for x in walk_no_nested(fi.node):
            div = None
            if isinstance(x, ast.BinOp) and isinstance(x.op, (ast.FloorDiv, ast.Mod)):
                div = x.right
            elif isinstance(x, ast.Call) and dotted(x.func).split(".")[-1] in ("divmod", "unravel_index", "reshape") and len(x.args) >= 1:
                div = ast.Tuple(elts=list(x.args[1:]) if dotted(x.func).split(".")[-1] != "reshape" or not isinstance(x.func, ast.Attribute) else list(x.args), ctx=ast.Load())
            if div is None:
                continue
            if rs is None:
                rs = _Res(fi.node)
                flow = flow_of(fi.node)
            at = flow.node_containing(x)
            rd = rs.resolve(div, at) if at is not None else div
            hit = one_batch_len(rd)
            n += 1
            if hit:
                R.check("C04.g", "no flat index is decomposed with the size of one stored batch as the stride", False, fi, x,
                        msg=f"{fi.short}: `{unparse(x)[:70]}` uses `{hit}` (the size of one particular stored batch) as the stride of the flat sample axis: with unequal batch "
                            f"sizes (a run resumed with another particle count) flat index i no longer addresses the i-th stored sample, so weights, resampling and trimming "
                            f"select other particles than the ones the weights were computed for", key=f"stride-assumption:{fi.short}")
    R.check("C04.g", "flat-index arithmetic never assumes equal batch sizes", True, f, f.node, key="stride-scan")
    R.analysed["C04.g:division/reshape sites scanned"] = n


def rule_h(ctx: Context, R: Reporter, f: FuncInfo):
    """C04.h  the log-weights that a consumer of the weight function hands out (returns) are the function's result,
    not a scribbled-over copy of it: between the call and a return that mentions the result's name there is no
    in-place modification of that array (augmented assignment, subscript store, out= argument, in-place method).
    A re-binding `logw = logw[idx]` (row selection) is not a modification."""
    from ..dataflow import _inplace_mutations

    n = 0
    for fi in ctx.prog.functions.values():
        if fi is f:
            continue
        flow = None
        for (call, tg) in ctx.cg.sites.get(fi.qualname, []):
            if f not in tg:
                continue
            flow = flow or flow_of(fi.node)
            cn = flow.node_containing(call)
            if cn is None or cn.kind != "stmt" or not isinstance(cn.stmt, ast.Assign) or cn.stmt.value is not call:
                continue
            t0 = cn.stmt.targets[0]
            name = t0.elts[0].id if isinstance(t0, ast.Tuple) and t0.elts and isinstance(t0.elts[0], ast.Name) else None
            if name is None or name == "_":
                continue
            n += 1
            cfg = flow.cfg
            muts = [cfg.nodes[i] for i in _inplace_mutations(flow).get(name, [])]
            muts += [nd for nd in cfg.stmt_nodes() if nd.kind == "stmt" and isinstance(nd.stmt, ast.AugAssign) and isinstance(nd.stmt.target, ast.Name) and nd.stmt.target.id == name]
            rets = [nd for nd in cfg.stmt_nodes() if nd.kind == "stmt" and isinstance(nd.stmt, ast.Return) and nd.stmt.value is not None
                    and any(isinstance(x, ast.Name) and x.id == name for x in ast.walk(nd.stmt.value))]
            bad = [m for m in muts if cfg.reaches(cn.id, m.id) and any(cfg.reaches(m.id, r.id) for r in rets)]
            R.check("C04.h", f"{fi.short}: the log-weights handed out are the weight function's result, unmodified", not bad, fi, bad[0].stmt if bad else cn.stmt,
                    msg=f"{fi.short}: `{unparse(bad[0].stmt)[:60]}` modifies the array returned by {f.short} in place and `{name}` is returned afterwards: the log-weights handed out "
                        f"are no longer beta*logL minus the log mixture density (they are offset / rescaled), and no longer sum to one" if bad else "",
                    key=f"handed-out-logw-modified:{fi.short}")
    R.floor("C04.h", "consumers binding the log-weights", n, 2)


def rule_i(ctx: Context, R: Reporter, f: FuncInfo):
    """C04.i  the weights are computed at the *requested* temperature: the temperature parameter of the weight
    function is not re-bound to another value (snapped to a grid / to 1 near the end of the schedule, replaced by the
    recorded temperature, ...).  A cast (float(b)) or a clip to exactly [0, 1] is the identity on the property's domain."""
    bf = f.params[1] if len(f.params) > 1 else None
    if bf is None:
        raise AnalysisError("C04.i: weight function has no temperature parameter")
    flow = flow_of(f.node)
    n = 0
    for nd in flow.cfg.stmt_nodes():
        if nd.kind != "stmt":
            continue
        st = nd.stmt
        tg = []
        if isinstance(st, ast.Assign):
            tg = [x for t in st.targets for x in ast.walk(t) if isinstance(x, ast.Name) and isinstance(x.ctx, ast.Store)]
        elif isinstance(st, (ast.AugAssign, ast.AnnAssign)) and isinstance(st.target, ast.Name):
            tg = [st.target]
        if not any(t.id == bf for t in tg):
            continue
        n += 1
        v = st.value if isinstance(st, (ast.Assign, ast.AnnAssign)) else None
        ok = False
        if isinstance(st, ast.Assign) and isinstance(v, ast.Call) and len(st.targets) == 1 and isinstance(st.targets[0], ast.Name):
            nm = dotted(v.func)
            if nm in ("float", "np.float64", "numpy.float64", "np.asarray", "np.asanyarray") and len(v.args) == 1 and norm_text(v.args[0]) == bf:
                ok = True
            if nm in ("np.clip", "numpy.clip") and len(v.args) == 3 and norm_text(v.args[0]) == bf and const_value(v.args[1]) in (0, 0.0) and const_value(v.args[2]) in (1, 1.0):
                ok = True
        R.check("C04.i", "the requested temperature is not replaced inside the weight function", ok, f, st,
                msg=f"{f.short}: `{unparse(st)[:70]}` re-binds the requested temperature `{bf}`: log-weights and evidence are then those of another temperature than the one asked for "
                    f"(beta*logL is formed with the replaced value)", key="temperature-rebound")
    R.check("C04.i", "the temperature parameter reaches the numerator as given", True, f, f.node, key="temperature-scan")
    R.analysed["C04.i:re-bindings of the temperature parameter"] = n


def rule_j(ctx: Context, R: Reporter, f: FuncInfo):
    """C04.j  the weight function (and the library code it calls) computes in double precision: nothing is cast to, or
    allocated in, a narrower floating type -- not even behind a size threshold.  beta_t*logL - logZ_t is a cancellation
    of terms of magnitude |logL|; in single precision it carries an absolute error of ~1e-7*|logL|, which for
    log-likelihoods of a few thousand is visible in the weights and in the evidence ("any magnitude")."""
    from ..util import precision_downgrades

    n = 0
    for g in [f] + [x for x in ctx.cg.reachable([f]) if x is not f]:
        n += 1
        for (node, t) in precision_downgrades(g.node):
            R.check("C04.j", "the weight function computes in double precision throughout", False, g, node,
                    msg=f"{g.short}: `{unparse(node)[:60]}` narrows to {t}: the mixture exponents beta_t*logL - logZ_t lose ~1e-7 of |logL| before the log-sum-exp, so log-weights, "
                        f"normalised weights and the evidence are off for log-likelihoods of large magnitude (and only once the branch / size threshold is reached)", key=f"precision-downgrade:{g.short}")
    R.check("C04.j", "weight function and callees scanned for narrow floating types", True, f, f.node, key="precision-scan")
    R.analysed["C04.j:functions scanned"] = n


def run(ctx: Context, R: Reporter):
    f = _weights_fn(ctx)
    R.guard(rule_j, ctx, R, f)
    R.guard(rule_i, ctx, R, f)
    R.guard(rule_h, ctx, R, f)
    R.guard(rule_g, ctx, R, f)
    R.guard(rule_f, ctx, R, f)
    R.guard(rule_a, ctx, R, f)
    R.guard(rule_b, ctx, R, f)
    R.guard(rule_e, ctx, R, f)


def rule_e(ctx: Context, R: Reporter, f):
    """C04.e  the weights are a function of the *current* history: whatever the
    history-owning class memoises across calls is reset by every method that
    changes the history (commit, import)."""
    from ..memo import memo_rule

    memo_rule(ctx, R, "C04.e", [f.cls], "a later weight / evidence / results query answers from a history that has since been extended or replaced", min_memos=1)


def variants():
    from ..variants import Variant, alpha_rename, chain, delete_stmt, insert_after, insert_before, replace_expr, replace_stmt

    sm = "tempest/state_manager.py"
    g = "StateManager.compute_logw_and_logz"
    return [
        Variant("b-drop-logz-normaliser", "bad", replace_expr(sm, g, "logl_all[:, None] * beta[None, :] - logz_iter[None, :]", "logl_all[:, None] * beta[None, :]"), ["C04.b", "C04.a"], quick=True),
        Variant("e-commit-keeps-results-memo", "bad", delete_stmt(sm, "StateManager.commit_current_to_history", "self._invalidate_cache()"), ["C04.e"], quick=True),
        Variant("e-logw-memo-never-reset", "bad", _memo_variant(False), ["C04.e"]),
        Variant("e-logw-memo-reset-benign", "benign", _memo_variant(True)),
        Variant("a-drop-mixture-weights", "bad", replace_expr(sm, g, "b + log_mixture_weights[None, :]", "b"), ["C04.a"], quick=True),
        Variant("a-uniform-mixture-weights", "bad", replace_stmt(sm, g, "log_mixture_weights = np.log(n_per_iter) - np.log(N_total)", "log_mixture_weights = -np.log(len(beta)) * np.ones(len(beta))"), ["C04.a"]),
        Variant("d-reduction-over-selected-columns", "bad", replace_stmt(sm, g, "B = np.logaddexp.reduce(b_weighted, axis=1)", "active = (b_weighted.max(axis=0) > -700.0)\nB = np.logaddexp.reduce(b_weighted[:, active], axis=1)"), ["C04.d"], quick=True),
        Variant("d-benign-reduction-over-all-rows-slice", "benign", replace_stmt(sm, g, "B = np.logaddexp.reduce(b_weighted, axis=1)", "B = np.logaddexp.reduce(b_weighted[:, :], axis=1)")),
        Variant("a-mixture-density-floored", "bad", replace_stmt(sm, g, "B = np.logaddexp.reduce(b_weighted, axis=1)", "B = np.logaddexp.reduce(b_weighted, axis=1)\nB = np.fmax(B, -708.0)"), ["C04.a"], quick=True),
        Variant("b-wrong-axis", "bad", replace_expr(sm, g, "np.logaddexp.reduce(b_weighted, axis=1)", "np.logaddexp.reduce(b_weighted, axis=0)"), ["C04.b"], quick=True),
        Variant("b-numerator-unit-beta", "bad", replace_stmt(sm, g, "A = logl_all * beta_final", "A = logl_all"), ["C04.b", "C04.a"]),
        Variant("b-logz-not-normalised-count", "bad", replace_stmt(sm, g, "logz_new = np.logaddexp.reduce(logw) - np.log(logw.size)", "logz_new = np.logaddexp.reduce(logw)"), ["C04.a"]),
        Variant("c-linear-space", "bad", replace_stmt(sm, g, "B = np.logaddexp.reduce(b_weighted, axis=1)", "B = np.log(np.sum(np.exp(b_weighted), axis=1))"), ["C04.c", "ANALYSIS-ERROR"], quick=True),
        Variant("c-lse-wrong-shift", "bad", replace_stmt(sm, g, "logz_new = np.logaddexp.reduce(logw) - np.log(logw.size)", "m = np.max(logl_all)\nlogz_new = m + np.log(np.sum(np.exp(logw - m))) - np.log(logw.size)"), ["C04.c", "C04.a"]),
        Variant("d-unique-merge", "bad", insert_after(sm, g, "logz_iter = np.asarray(self.get_history('logz'))", "beta, first = np.unique(beta, return_index=True)\nlogz_iter = logz_iter[first]"), ["C04.d", "ANALYSIS-ERROR"]),
        Variant("d-single-iteration-shortcut", "bad", replace_stmt(sm, g, "B = np.logaddexp.reduce(b_weighted, axis=1)", "if beta.size == 1:\n    B = beta[0] * logl_all\nelse:\n    B = np.logaddexp.reduce(b_weighted, axis=1)"), ["C04.d", "C04.b"], quick=True),
        Variant("b-no-normalisation", "bad", replace_stmt(sm, g, "logw = logw - np.logaddexp.reduce(logw)", "logw = logw - np.max(logw)"), ["C04.b"]),
        # batch sizes produced lazily: same counts, same orientation requirement
        Variant("f-benign-counts-fromiter", "benign", replace_stmt(sm, g, "n_per_iter = np.array([len(logl_per_iter[t]) for t in range(len(beta))])", "n_per_iter = np.fromiter((len(logl_per_iter[t]) for t in range(len(beta))), dtype=int, count=len(beta))"), quick=True),
        Variant("f-counts-fromiter-mixture-weight-sign", "bad", chain(
            replace_stmt(sm, g, "n_per_iter = np.array([len(logl_per_iter[t]) for t in range(len(beta))])", "n_per_iter = np.fromiter((len(logl_per_iter[t]) for t in range(len(beta))), dtype=int, count=len(beta))"),
            replace_expr(sm, g, "b + log_mixture_weights[None, :]", "b - log_mixture_weights[None, :]")), ["C04.f"], quick=True),
        Variant("f-mixture-weight-sign", "bad", replace_expr(sm, g, "b + log_mixture_weights[None, :]", "b - log_mixture_weights[None, :]"), ["C04.f"], quick=True),
        Variant("f-denominator-added", "bad", replace_stmt(sm, g, "logw = A - B", "logw = A + B"), ["C04.f"], quick=True),
        Variant("f-logz-sign", "bad", replace_expr(sm, g, "logl_all[:, None] * beta[None, :] - logz_iter[None, :]", "logl_all[:, None] * beta[None, :] + logz_iter[None, :]"), ["C04.f"]),
        Variant("f-evidence-times-count", "bad", replace_stmt(sm, g, "logz_new = np.logaddexp.reduce(logw) - np.log(logw.size)", "logz_new = np.logaddexp.reduce(logw) + np.log(logw.size)"), ["C04.f"]),
        Variant("f-mixture-ratio-inverted", "bad", replace_stmt(sm, g, "log_mixture_weights = np.log(n_per_iter) - np.log(N_total)", "log_mixture_weights = np.log(N_total) - np.log(n_per_iter)"), ["C04.f"]),
        Variant("f-benign-commuted-sum", "benign", replace_expr(sm, g, "b + log_mixture_weights[None, :]", "log_mixture_weights[None, :] + b")),
        Variant("g-equal-batch-stride", "bad", insert_after(sm, g, "logl_per_iter = self._history.get('logl')", "which_iter = np.arange(len(logl_all)) // len(logl_per_iter[0])"), ["C04.g"], quick=True),
        Variant("h-posterior-logw-shifted-in-place", "bad", replace_stmt("tempest/core.py", "SamplerCore.compute_posterior", "weights = np.exp(logw - np.max(logw))", "logw -= np.max(logw)\nweights = np.exp(logw)"), ["C04.h"], quick=True),
        Variant("h-benign-shifted-copy", "benign", replace_stmt("tempest/core.py", "SamplerCore.compute_posterior", "weights = np.exp(logw - np.max(logw))", "shifted = logw - np.max(logw)\nweights = np.exp(shifted)"), quick=True),
        Variant("j-single-precision-table-above-threshold", "bad", replace_stmt(sm, g, "b = logl_all[:, None] * beta[None, :] - logz_iter[None, :]", "dt = np.float32 if logl_all.size * beta.size > 2 ** 20 else np.float64\nb = logl_all.astype(dt)[:, None] * beta.astype(dt)[None, :] - logz_iter.astype(dt)[None, :]"), ["C04.j"], quick=True),
        Variant("j-benign-explicit-double", "benign", replace_stmt(sm, g, "b = logl_all[:, None] * beta[None, :] - logz_iter[None, :]", "b = logl_all.astype(np.float64)[:, None] * beta[None, :] - logz_iter[None, :]")),
        Variant("i-snap-to-one", "bad", insert_before(sm, g, "A = logl_all * beta_final", "if 1.0 - beta_final < 1e-4:\n    beta_final = 1.0"), ["C04.i"], quick=True),
        Variant("i-benign-float-cast", "benign", insert_before(sm, g, "A = logl_all * beta_final", "beta_final = float(beta_final)"), quick=True),
        Variant("benign-rename-b", "benign", alpha_rename(sm, g, "b_weighted", "comp"), quick=True),
        Variant("benign-inline-A", "benign", replace_stmt(sm, g, "logw = A - B", "logw = beta_final * logl_all - B")),
        Variant("benign-log-ratio", "benign", replace_stmt(sm, g, "log_mixture_weights = np.log(n_per_iter) - np.log(N_total)", "log_mixture_weights = np.log(n_per_iter / N_total)")),
    ]


def _memo_variant(with_reset: bool):
    from ..variants import chain, insert_after, insert_before, replace_stmt

    sm = "tempest/state_manager.py"
    g = "StateManager.compute_logw_and_logz"
    steps = [
        insert_after(sm, "StateManager.__init__", "self._results_dict = None", "self._lw_memo = None"),
        insert_before(sm, g, "logz_iter = np.asarray", "if self._lw_memo is not None and self._lw_memo[0] == (beta_final, normalize):\n    return self._lw_memo[1]"),
        replace_stmt(sm, g, "return logw, logz_new", "self._lw_memo = ((beta_final, normalize), (logw.copy(), logz_new))\nreturn logw, logz_new"),
    ]
    if with_reset:
        steps.append(insert_after(sm, "StateManager._invalidate_cache", "self._results_dict = None", "self._lw_memo = None"))
    return chain(*steps)
