"""C17  Accessors never alias internal state; committed history is append-only.

  C17.a  escape analysis: every value returned by a public accessor of the state
         manager and of the facade is Scalar or fresh at every level that can
         hold an array (ownership lattice A4); a returned container is not the
         retained cache object.
  C17.b  import/setter stores: values stored into internal state are fresh
         copies (the documented `copy=False` escape hatch is exempt and unused
         by the library).
  C17.c  history is append-only: the only in-place mutations of history lists
         are one `append` of a fresh copy per key in the commit routine (plus
         wholesale replacement in the import paths).
"""
from __future__ import annotations

import ast
from typing import List

from ..dataflow import flow_of
from ..engine import Context, Reporter
from ..fresh import AV, Freshness
from ..model import AnalysisError, FuncInfo, dotted, norm_text, walk_no_nested
from ..util import call_arg, calls_in, unparse

PROP = "C17"
EXPLANATION = (
    "Ownership (freshness) abstract interpretation of every public accessor of the state manager and of the facade: "
    "a returned value must be Scalar or freshly allocated at every container level (C17.a); every value stored into "
    "internal state by setters/imports/commit is a fresh copy (C17.b); history lists are mutated only by one append "
    "of a fresh copy per key in the commit routine, called once per iteration (C17.c). Decides aliasing structure on "
    "all paths; object-dtype blobs (user objects shared by design) and the explicit copy=False contract are outside."
)
ASSUMPTIONS = [
    "numpy semantics: ndarray.copy/np.array/np.concatenate/fancy indexing allocate, np.asarray/basic slicing/reshape alias",
    "values in the state dictionaries are ndarrays, scalars or None (as written by the pipeline steps)",
    "setters called with copy=False are exempt by their documented contract (the library has no such call site; asserted)",
]

MUTATORS = {"pop", "clear", "insert", "remove", "sort", "reverse", "extend", "__setitem__", "__delitem__", "popitem"}


def public_accessors(ctx: Context) -> List[FuncInfo]:
    sc = ctx.state.state_cls
    out = []
    for name, m in sc.methods.items():
        if name.startswith("_") or m.is_classmethod:
            continue
        out.append(m)
    return out


def facade_accessors(ctx: Context) -> List[FuncInfo]:
    """Public methods/properties of classes that hold the state object and hand
    values back to the user (Sampler and, through it, SamplerCore)."""
    out = []
    sc = ctx.state.state_cls
    for ci in ctx.prog.classes.values():
        if ci is sc:
            continue
        holds = any(sc in ctx.res.attr_type(ci, a) for a in _self_attrs(ci))
        if not holds:
            continue
        for name, m in ci.methods.items():
            if name.startswith("_") and name != "__getstate__":
                continue
            if any(isinstance(r, ast.Return) and r.value is not None for r in walk_no_nested(m.node)):
                out.append(m)
    return out


def _self_attrs(ci):
    names = set()
    for m in ci.methods.values():
        for n in walk_no_nested(m.node):
            if isinstance(n, ast.Attribute) and isinstance(n.value, ast.Name) and n.value.id == "self":
                names.add(n.attr)
    return names


def describe(av: AV) -> str:
    bad = av.bad_nodes(("internal",))
    return "; ".join(sorted({b.why or repr(b) for b in bad}))[:300]


def rule_a(ctx: Context, R: Reporter, F: Freshness):
    accs = public_accessors(ctx)
    fac = facade_accessors(ctx)
    n = 0
    for m in accs + fac:
        for (ret, av) in F.returns_of(m):
            n += 1
            bad = av.bad_nodes(("internal",))
            R.check(
                "C17.a", f"value returned by {m.short} does not alias internal state", not bad, m, ret,
                msg=f"{m.short} returns `{unparse(ret.value)[:80]}` which aliases internal state: {describe(av)} (abstract value {av!r})",
                witness={"abstract_value": repr(av)}, key=f"return:{norm_text(ret.value)[:120]}",
            )
    R.floor("C17.a", "return statements of public accessors", n, 20)
    # the copy helper's own summary
    helper = ctx.state.state_cls.methods.get("_ensure_copy")
    if helper is not None:
        kind = F.copy_helper_kind(helper)
        R.check("C17.a", "the copy helper copies arrays on every path that returns its argument", kind == "copies-arrays", helper, helper.node,
                msg=f"{helper.short} can return an ndarray argument uncopied (summary: {kind})", key="copy-helper")
    R.analysed["C17.a:accessors"] = [m.short for m in accs + fac]


def rule_b(ctx: Context, R: Reporter, F: Freshness):
    sc = ctx.state.state_cls
    n = 0
    for m in sc.methods.values():
        flow = flow_of(m.node)
        for node in walk_no_nested(m.node):
            stores = []  # (slot description, value expr, stmt, receiver expr)
            if isinstance(node, ast.Assign):
                for t in node.targets:
                    base = t.value if isinstance(t, ast.Subscript) else t
                    if isinstance(t, ast.Subscript) and isinstance(base, ast.Subscript):
                        base = base.value
                    if isinstance(base, ast.Attribute) and base.attr in ("_current", "_history") and isinstance(t, ast.Subscript):
                        stores.append((unparse(t), node.value, node, base.value))
            elif isinstance(node, ast.Call) and isinstance(node.func, ast.Attribute) and node.func.attr in ("update", "append", "extend", "setdefault", "__setitem__"):
                b = node.func.value
                inner = b.value if isinstance(b, ast.Subscript) else b
                if isinstance(inner, ast.Attribute) and inner.attr in ("_current", "_history") and node.args:
                    stores.append((unparse(node.func), node.args[-1], node, inner.value))
            for (slot, val, stmt, recv) in stores:
                at = flow.node_containing(stmt)
                av = F.eval(m, val, at)
                n += 1
                # one mutable object shared by several slots: dict.fromkeys(keys, []) / [[]] * n
                from ..dataflow import Resolver as _Res

                rv = _Res(m.node).resolve(val, at) if at is not None else val
                for x in ast.walk(rv):
                    shared = None
                    if isinstance(x, ast.Call) and dotted(x.func) == "dict.fromkeys" and len(x.args) == 2 and (isinstance(x.args[1], (ast.List, ast.Dict, ast.Set, ast.ListComp))
                                                                                                             or (isinstance(x.args[1], ast.Call) and dotted(x.args[1].func) in ("list", "dict", "set"))):
                        shared = f"`{unparse(x)[:50]}` gives every key the same {unparse(x.args[1])} object"
                    elif isinstance(x, ast.BinOp) and isinstance(x.op, ast.Mult) and isinstance(x.left, ast.List) and any(isinstance(el, (ast.List, ast.Dict)) for el in x.left.elts):
                        shared = f"`{unparse(x)[:50]}` repeats one inner list object"
                    if shared:
                        R.check("C17.c", "every recorded quantity has its own history list", False, m, stmt,
                                msg=f"{m.short}: {shared}: a batch appended for one quantity appears in the history of all of them (several batches per quantity per iteration)",
                                key=f"shared-history-list:{m.short}")
                bad = av.bad_nodes(("param", "internal"))
                # `.update(dict)`: the container itself is consumed, its *elements* are stored
                if isinstance(stmt, ast.Call) and stmt.func.attr in ("update", "extend"):
                    bad = [b for e in (av.elems if av.kind == "cont" else [av]) for b in e.bad_nodes(("param", "internal"))]
                R.check(
                    "C17.b", f"value stored into {slot} is a fresh copy", not bad, m, stmt,
                    msg=f"{m.short}: `{unparse(stmt)[:90]}` stores {'; '.join(sorted({b.why or repr(b) for b in bad}))[:160]} without copying: "
                        f"internal state shares memory with an object owned by the caller / another slot",
                    witness={"abstract_value": repr(av)},
                )
    R.floor("C17.b", "stores into internal state", n, 5)
    # copy=False is never used by the library itself
    offenders = []
    for fi in ctx.prog.functions.values():
        for c in calls_in(fi.node):
            if isinstance(c.func, ast.Attribute) and c.func.attr in ("set_current", "update_current") and ctx.state.is_state_receiver(fi, c.func.value):
                cp = call_arg(c, 2 if c.func.attr == "set_current" else 1, "copy")
                if cp is not None and not (isinstance(cp, ast.Constant) and cp.value is True):
                    offenders.append((fi, c))
    for (fi, c) in offenders:
        R.check("C17.b", "library call sites do not opt out of the defensive copy", False, fi, c,
                msg=f"{fi.short}: `{unparse(c)[:80]}` passes copy={unparse(call_arg(c, None, 'copy') or c.args[-1])}: the state then aliases the caller's array")
    R.check("C17.b", "no library call site passes copy=False to a setter", not offenders, None, None, key="copy-false-sites", loc="tempest/")
    # default of the `copy` parameter is True
    for name in ("set_current", "update_current"):
        m = sc.methods.get(name)
        if m is None:
            raise AnalysisError(f"C17.b: setter {name} vanished")
        d = m.param_default("copy")
        R.check("C17.b", f"{name} copies by default", isinstance(d, ast.Constant) and d.value is True, m, m.node,
                msg=f"{m.short}: default of `copy` is {unparse(d)}; stored values alias caller arrays by default", key=f"default-copy:{name}")


def rule_c(ctx: Context, R: Reporter, F: Freshness):
    sc = ctx.state.state_cls
    appends = []
    for fi in ctx.prog.functions.values():
        for node in walk_no_nested(fi.node):
            # in-place mutation of history lists anywhere in the package
            if isinstance(node, ast.Call) and isinstance(node.func, ast.Attribute):
                b = node.func.value
                inner = b.value if isinstance(b, ast.Subscript) else b
                is_hist = isinstance(inner, ast.Attribute) and inner.attr == "_history"
                sec_name, sec_key = None, "?"
                if not is_hist and isinstance(b, ast.Subscript) and isinstance(b.value, ast.Name):
                    sec_name, sec_key = b.value.id, (b.slice.value if isinstance(b.slice, ast.Constant) else None)
                elif not is_hist and isinstance(b, ast.Call) and isinstance(b.func, ast.Attribute) and b.func.attr in ("get", "setdefault") and isinstance(b.func.value, ast.Name) and b.args:
                    sec_name, sec_key = b.func.value.id, (b.args[0].value if isinstance(b.args[0], ast.Constant) else None)
                if sec_name is not None:
                    # a section of a locally built dict that still *is* the internal container:
                    # d = {"_history": self._history}; d["_history"].pop(k)   (also d.get(section, {}).pop(k) with the
                    # section name computed: then every section of the display is a candidate)
                    flow = flow_of(fi.node)
                    at = flow.node_containing(node)
                    for d in (flow.reaching(at, sec_name) if at is not None else []):
                        if isinstance(d.value, ast.Dict):
                            for k_, v_ in zip(d.value.keys, d.value.values):
                                if isinstance(k_, ast.Constant) and (sec_key is None or k_.value == sec_key) and isinstance(v_, ast.Attribute) and isinstance(v_.value, ast.Name) and v_.value.id == "self" \
                                        and v_.attr in ("_history", "_current"):
                                    if node.func.attr in MUTATORS or node.func.attr in ("pop", "clear", "popitem", "update", "setdefault", "__delitem__"):
                                        R.check("C17.c", "internal state dictionaries are not mutated through an exported alias", False, fi, node,
                                                msg=f"{fi.short}: `{unparse(node)[:70]}` mutates self.{v_.attr} itself (the local dict holds a reference, not a copy): "
                                                    f"recorded quantities and their committed batches disappear from the live state", key=f"alias-mutation:{v_.attr}:{node.func.attr}")
                if not is_hist and isinstance(b, ast.Name):
                    # alias: history = self._history[key]
                    flow = flow_of(fi.node)
                    at = flow.node_containing(node)
                    for d in (flow.reaching(at, b.id) if at is not None else []):
                        if d.value is not None and _rooted_at_history(d.value):
                            is_hist = True
                if not is_hist:
                    continue
                if node.func.attr == "append" and isinstance(b, (ast.Subscript, ast.Name)):
                    appends.append((fi, node))
                elif node.func.attr in MUTATORS and isinstance(b, (ast.Subscript, ast.Name)):
                    R.check("C17.c", "history lists are only appended to", False, fi, node,
                            msg=f"{fi.short}: `{unparse(node)[:80]}` mutates a committed history list in place")
                elif node.func.attr in ("pop", "clear", "popitem", "__delitem__") :
                    R.check("C17.c", "history keys are never removed", False, fi, node,
                            msg=f"{fi.short}: `{unparse(node)[:80]}` removes committed history")
            elif isinstance(node, (ast.Assign, ast.AugAssign, ast.Delete)):
                tgts = node.targets if isinstance(node, (ast.Assign, ast.Delete)) else [node.target]
                for t in tgts:
                    # who-may-rebind: the history / current containers are replaced only by the state manager itself
                    if isinstance(t, ast.Attribute) and t.attr in ("_history", "_current") and fi.cls is not sc:
                        R.check("C17.c", "only the state manager replaces its history / current containers", False, fi, node,
                                msg=f"{fi.short}: `{unparse(node)[:70]}` swaps the state manager's `{t.attr}` from outside: if anything between the swap and the restore raises, the "
                                    f"committed history is gone (and every accessor meanwhile answers from the stand-in)", key=f"foreign-rebind:{fi.short}:{t.attr}")
                    # self._history[k][i] = v  / del self._history[k][i] / self._history[k] += ...
                    chain = []
                    x = t
                    while isinstance(x, ast.Subscript):
                        chain.append(x)
                        x = x.value
                    if isinstance(x, ast.Attribute) and x.attr == "_history" and chain:
                        depth = len(chain)
                        in_import = fi.cls is sc and (fi.name in ("__init__",) or _is_import(fi))
                        if depth >= 2 or isinstance(node, (ast.AugAssign, ast.Delete)) or not in_import:
                            R.check("C17.c", "earlier history batches are never overwritten", False, fi, node,
                                    msg=f"{fi.short}: `{unparse(node)[:80]}` rewrites committed history in place")
    # in-place numpy operations on arrays that are still the internal ones: np.f(a, copy=False), np.f(..., out=a),
    # a.sort() / a.fill() / np.copyto(a, ...) / np.place / np.putmask with `a` an element of the history or current state
    INPLACE_METHODS = {"sort", "fill", "put", "itemset", "resize", "partition", "setfield", "byteswap"}
    INPLACE_FUNCS = {"numpy.copyto": 0, "numpy.place": 0, "numpy.putmask": 0, "numpy.put": 0, "numpy.random.shuffle": 0, "numpy.fill_diagonal": 0}
    n_inpl = 0
    for fi in ctx.prog.functions.values():
        if fi.cls is None or not (fi.cls is sc or sc in [t for a_ in _self_attrs(fi.cls) for t in ctx.res.attr_type(fi.cls, a_)]):
            continue
        parents = {}
        for x in ast.walk(fi.node):
            for ch in ast.iter_child_nodes(x):
                parents[id(ch)] = x
        flow = flow_of(fi.node)
        for node in walk_no_nested(fi.node):
            if not isinstance(node, ast.Call):
                continue
            target = None
            how = ""
            for k in node.keywords:
                if k.arg == "out" and not (isinstance(k.value, ast.Constant) and k.value.value is None):
                    target, how = k.value, "out="
                if k.arg == "copy" and isinstance(k.value, ast.Constant) and k.value.value is False and node.args and (ctx.res.external_name(fi, node) or "").startswith("numpy.") \
                        and (ctx.res.external_name(fi, node) or "").split(".")[-1] in ("nan_to_num", "clip", "round", "around"):
                    target, how = node.args[0], "copy=False"
            nm = ctx.res.external_name(fi, node) or ""
            if nm in INPLACE_FUNCS and len(node.args) > INPLACE_FUNCS[nm]:
                target, how = node.args[INPLACE_FUNCS[nm]], nm
            if isinstance(node.func, ast.Attribute) and node.func.attr in INPLACE_METHODS and not nm.startswith("numpy."):
                target, how = node.func.value, f".{node.func.attr}()"
            if target is None:
                continue
            at = flow.node_containing(node)
            # bind the variables of enclosing comprehensions
            env = {}
            chain_ = []
            x = node
            while id(x) in parents:
                x = parents[id(x)]
                if isinstance(x, (ast.ListComp, ast.GeneratorExp, ast.SetComp, ast.DictComp)):
                    chain_.append(x)
            for comp in reversed(chain_):
                for g in comp.generators:
                    it = F.eval(fi, g.iter, at, env)
                    el = F._iter_elem(g.iter, it, fi, at, env, 0)
                    F._bind(g.target, el, env)
            av = F.eval(fi, target, at, env)
            n_inpl += 1
            bad = av.bad_nodes(("internal",))
            R.check("C17.c", "no in-place numpy operation is applied to an array that is still the internal one", not bad, fi, node,
                    msg=f"{fi.short}: `{unparse(node)[:70]}` ({how}) writes into {'; '.join(sorted({b.why or repr(b) for b in bad}))[:120]}: a read-only query rewrites committed "
                        f"batches / the live state in place", key=f"inplace:{fi.short}:{how}")
    R.analysed["C17.c:in-place numpy call sites inspected"] = n_inpl
    R.floor("C17.c", "append sites on history lists", len(appends), 1)
    commit_funcs = {fi.qualname for (fi, _) in appends}
    for (fi, node) in appends:
        flow = flow_of(fi.node)
        at = flow.node_containing(node)
        ok_cls = fi.cls is sc
        R.check("C17.c", "history is appended only by the state manager's commit", ok_cls, fi, node,
                msg=f"{fi.short} appends to the history from outside the state manager")
        av = F.eval(fi, node.args[0], at) if node.args else None
        bad = av.bad_nodes(("internal", "param")) if av is not None else []
        R.check("C17.c", "the committed batch is a fresh copy of the current value", not bad, fi, node,
                msg=f"{fi.short}: `{unparse(node)[:80]}` commits a reference to the live current-state array ({'; '.join(b.why for b in bad)[:100]}); "
                    f"later in-place changes would alter committed history", key=f"append-fresh:{fi.short}")
        # exactly one append per key per call: the append is inside exactly one loop, over the key set
        loops = at.loops if at is not None else ()
        R.check("C17.c", "one append per recorded quantity per commit", len(loops) == 1, fi, node,
                msg=f"{fi.short}: the history append is nested in {len(loops)} loops (expected one loop over the keys)", key=f"append-once:{fi.short}")
        # all-or-nothing: no exception can be raised once the first batch has been appended (a partially
        # committed iteration leaves the recorded quantities with different numbers of batches)
        if at is not None:
            cfg = flow.cfg
            raises = [nd for nd in cfg.stmt_nodes() if nd.kind == "stmt" and isinstance(nd.stmt, ast.Raise)]
            late = [r for r in raises if cfg.reaches(at.id, r.id)]
            R.check("C17.c", "the commit validates before it appends (no raise reachable after an append)", not late, fi, late[0].stmt if late else node,
                    msg=f"{fi.short}: `{unparse(late[0].stmt)[:60] if late else ''}` can be reached after `{unparse(node)[:50]}` has already appended a batch: a rejected commit "
                        f"leaves some quantities one batch longer than others (history no longer one batch per quantity per iteration)", key=f"append-atomic:{fi.short}")
    # the commit is called exactly once per iteration in the pipeline driver
    n_calls = 0
    for fi in ctx.prog.functions.values():
        if fi.cls is sc:
            continue
        sites = [c for (c, tg) in ctx.cg.sites.get(fi.qualname, []) if any(isinstance(t, FuncInfo) and t.qualname in commit_funcs for t in tg)]
        for c in sites:
            n_calls += 1
            at = flow_of(fi.node).node_containing(c)
            cfg = flow_of(fi.node).cfg
            once = at is not None and not at.loops and cfg.postdominates(at.id, cfg.entry.id) or (at is not None and not at.loops and not cfg.reaches(cfg.entry.id, cfg.exit.id, blocked=[at.id]))
            R.check("C17.c", "the commit runs exactly once on every path of the iteration", bool(once) and len(sites) == 1, fi, c,
                    msg=f"{fi.short}: commit is not executed exactly once per call ({len(sites)} call sites; in loop: {bool(at and at.loops)})", key=f"commit-once:{fi.short}")
    R.floor("C17.c", "commit call sites", n_calls, 1)


def _rooted_at_history(e: ast.expr) -> bool:
    """e is self._history, self._history[k], self._history.get(k) (an alias of
    an internal history list), not a new container that merely mentions it."""
    while True:
        if isinstance(e, ast.Subscript):
            e = e.value
        elif isinstance(e, ast.Call) and isinstance(e.func, ast.Attribute) and e.func.attr in ("get", "setdefault") :
            e = e.func.value
        else:
            break
    return isinstance(e, ast.Attribute) and e.attr == "_history"


def _is_import(fi: FuncInfo) -> bool:
    return any(isinstance(n, ast.Constant) and n.value == "_history" for n in ast.walk(fi.node))


def rule_d(ctx: Context, R: Reporter):
    """C17.d  the `copy` contract of a setter is the caller's, for every entry: a method of the state class that takes a
    `copy` parameter does not re-bind it inside a loop from something that varies with the loop (the value just
    handled): the flag computed for one entry would then decide for the entries that follow, and arrays after the
    first scalar are stored by reference although copy=True was requested."""
    sc = ctx.state.state_cls
    n = 0
    for m in sc.methods.values():
        if "copy" not in m.params:
            continue
        n += 1
        for loop in [x for x in walk_no_nested(m.node) if isinstance(x, (ast.For, ast.While))]:
            varying = {y.id for y in ast.walk(loop.target) if isinstance(y, ast.Name)} if isinstance(loop, ast.For) else set()
            for st in loop.body:
                for y in ast.walk(st):
                    if isinstance(y, ast.Name) and isinstance(y.ctx, ast.Store):
                        varying.add(y.id)
            varying.discard("copy")
            for st in ast.walk(loop):
                tg = st.targets if isinstance(st, ast.Assign) else ([st.target] if isinstance(st, (ast.AugAssign, ast.AnnAssign)) else [])
                if any(isinstance(t, ast.Name) and t.id == "copy" for t in tg) and st.value is not None:
                    dep = {y.id for y in ast.walk(st.value) if isinstance(y, ast.Name)} & varying
                    R.check("C17.d", "the caller's copy flag is not overwritten per entry inside the storing loop", not dep, m, st,
                            msg=f"{m.short}: `{unparse(st)[:60]}` re-binds the `copy` parameter inside the loop from `{sorted(dep)}`: once it is False for one entry (a scalar, None) it stays False "
                                f"for all the following entries, whose arrays are then stored by reference -- a later change of the caller's array changes the current state and the next "
                                f"committed batch", key=f"copy-flag-rebound:{m.short}")
    R.check("C17.d", "setters with a copy parameter scanned", True, None, None, key="copy-flag-scan")
    R.floor("C17.d", "state-class methods with a copy parameter", n, 2)


def run(ctx: Context, R: Reporter):
    R.guard(rule_d, ctx, R)
    F = Freshness(ctx)
    R.guard(rule_a, ctx, R, F)
    R.guard(rule_b, ctx, R, F)
    R.guard(rule_c, ctx, R, F)


def _class_cache_variant(relpath, benign=False):
    """class body gains `_len_cache = {}` and get_history_length() stores into it through self"""
    from ..variants import edit

    def fn(node, tree):
        for c in ast.walk(tree):
            if isinstance(c, ast.ClassDef) and c.name == "StateManager":
                if benign:  # an immutable class-level table that a method only reads
                    c.body.insert(1, ast.parse("_KINDS = ('u', 'x')").body[0])
                    for m in c.body:
                        if isinstance(m, ast.FunctionDef) and m.name == "get_history_length":
                            m.body.insert(1 if isinstance(m.body[0], ast.Expr) else 0, ast.parse("kinds = self._KINDS").body[0])
                            return True
                    return False
                c.body.insert(1, ast.parse("_len_cache = {}").body[0])
                for m in c.body:
                    if isinstance(m, ast.FunctionDef) and m.name == "get_history_length":
                        m.body.insert(1 if isinstance(m.body[0], ast.Expr) else 0, ast.parse("self._len_cache['n'] = 1").body[0])
                        return True
        return False

    return edit(relpath, None, fn)


def variants():
    from ..variants import Variant, alpha_rename, chain, delete_stmt, edit, insert_after, insert_before, insert_before_function, replace_expr, replace_stmt

    sm = "tempest/state_manager.py"
    core = "tempest/core.py"
    return [
        Variant("z-class-level-cache-shared-by-instances", "bad", _class_cache_variant(sm), ["C17.z"], quick=True),
        Variant("z-benign-class-level-constant", "benign", _class_cache_variant(sm, benign=True)),
        Variant("d-copy-flag-carried-over-entries", "bad", replace_stmt(sm, "StateManager.update_current", "self._current[key] = self._ensure_copy(value) if copy else value", "copy = copy and isinstance(value, np.ndarray)\nself._current[key] = value.copy() if copy else value"), ["C17.d"], quick=True),
        Variant("d-benign-per-entry-flag", "benign", replace_stmt(sm, "StateManager.update_current", "self._current[key] = self._ensure_copy(value) if copy else value", "copy_this = copy and isinstance(value, np.ndarray)\nself._current[key] = value.copy() if copy_this else value")),
        Variant("c-validate-while-appending", "bad", insert_after(sm, "StateManager.commit_current_to_history", "value = self._current[current_key]", "if strict and value is None:\n    raise ValueError('missing')"), ["C17.c"], quick=True),
        Variant("a-get-current-no-copy", "bad", replace_expr(sm, "StateManager.get_current", "self._ensure_copy(value)", "value"), ["C17.a"], quick=True),
        Variant("a-get-history-index-no-copy", "bad", replace_expr(sm, "StateManager.get_history", "self._ensure_copy(self._history[key][index])", "self._history[key][index]"), ["C17.a"]),
        Variant("a-get-history-asarray", "bad", replace_expr(sm, "StateManager.get_history", "np.array(self._history[key])", "self._history[key]"), ["C17.a"], quick=True),
        Variant("a-last-history-no-copy", "bad", replace_expr(sm, "StateManager.get_last_history", "self._ensure_copy(history[-1])", "history[-1]"), ["C17.a"]),
        Variant("a-ensure-copy-identity", "bad", replace_expr(sm, "StateManager._ensure_copy", "value.copy()", "value"), ["C17.a", "C17.b", "C17.c"], quick=True),
        Variant("a-get-current-all-shallow", "bad", replace_expr(sm, "StateManager.get_current", "{k: self._ensure_copy(v) for k, v in self._current.items()}", "dict(self._current)"), ["C17.a"]),
        Variant("b-set-current-no-copy-default", "bad", edit(sm, "StateManager.set_current", _copy_default_false), ["C17.b"], quick=True),
        Variant("b-update-no-copy", "bad", replace_expr(sm, "StateManager.update_current", "self._ensure_copy(value) if copy else value", "value"), ["C17.b"]),
        Variant("c-commit-no-copy", "bad", replace_expr(sm, "StateManager.commit_current_to_history", "self._history[current_key].append(self._ensure_copy(value))", "self._history[current_key].append(value)"), ["C17.c"], quick=True),
        Variant("c-history-overwrite", "bad", insert_after(sm, "StateManager.commit_current_to_history", "self._invalidate_cache()", "self._history['logz'][0] = 0.0"), ["C17.c"]),
        Variant("c-history-pop", "bad", insert_before("tempest/steps/reweight.py", "Reweighter.run", "beta_prev = self.state.get_current('beta')", "self.state._history['u'].pop(0)"), ["C17.c"]),
        Variant("c-commit-twice", "bad", insert_after(core, "SamplerCore.execute_iteration", "self.state.commit_current_to_history()", "self.state.commit_current_to_history()"), ["C17.c"]),
        Variant("c-commit-in-branch", "bad", replace_stmt(core, "SamplerCore.execute_iteration", "self.state.commit_current_to_history()", "if save_every is None:\n    self.state.commit_current_to_history()"), ["C17.c"]),
        Variant("a-results-first-call-shares-cache", "bad", replace_stmt(sm, "StateManager.compute_results", "return {k: self._ensure_copy(v) for k, v in self._results_dict.items()}", "out = {k: v for k, v in self._results_dict.items()}\nself._last = dict(out)\nreturn out"), ["C17.a"]),
        Variant("c-foreign-history-swap", "bad", insert_before(core, "SamplerCore.save_sampler_state", "d = self.state.to_dict()", "self.state._history = dict(self.state._history)"), ["C17.c"], quick=True),
        Variant("c-inplace-on-history", "bad", insert_after(sm, "StateManager.compute_logw_and_logz", "logl_per_iter = self._history.get('logl')", "np.nan_to_num(logl_per_iter[0], copy=False)"), ["C17.c"], quick=True),
        Variant("c-inplace-out-kw", "bad", insert_after(sm, "StateManager.compute_logw_and_logz", "logl_per_iter = self._history.get('logl')", "np.clip(logl_per_iter[-1], -1e300, None, out=logl_per_iter[-1])"), ["C17.c"]),
        Variant("c-inplace-benign-on-copy", "benign", insert_after(sm, "StateManager.compute_logw_and_logz", "logl_all = self.get_history('logl', flat=True)", "np.nan_to_num(logl_all, copy=False, nan=-1e300)")),
        Variant("c-shared-history-list", "bad", insert_after(sm, "StateManager.__init__", "self._results_dict = None", "self._history.update(dict.fromkeys(HISTORY_STATE_KEYS, []))"), ["C17.c"], quick=True),
        Variant("benign-rename-value", "benign", alpha_rename(sm, "StateManager.get_current", "value", "val"), quick=True),
        Variant("benign-np-copy", "benign", replace_expr(sm, "StateManager._ensure_copy", "value.copy()", "np.array(value)"), quick=True),
        # what the copy helper may hand out: new arrays, never another name for the stored one
        Variant("a-benign-ensure-copy-np-copy", "benign", replace_expr(sm, "StateManager._ensure_copy", "value.copy()", "np.copy(value)")),
        Variant("a-benign-ensure-copy-np-array-copy-true", "benign", replace_expr(sm, "StateManager._ensure_copy", "value.copy()", "np.array(value, copy=True)")),
        Variant("a-benign-ensure-copy-astype-default", "benign", replace_expr(sm, "StateManager._ensure_copy", "value.copy()", "value.astype(value.dtype)")),
        Variant("a-ensure-copy-is-alias-np-asarray", "bad", replace_expr(sm, "StateManager._ensure_copy", "value.copy()", "np.asarray(value)"), ["C17.a", "C17.b", "C17.c"]),
        Variant("a-ensure-copy-is-alias-np-array-copy-false", "bad", replace_expr(sm, "StateManager._ensure_copy", "value.copy()", "np.array(value, copy=False)"), ["C17.a", "C17.b", "C17.c"]),
        Variant("a-ensure-copy-is-alias-view", "bad", replace_expr(sm, "StateManager._ensure_copy", "value.copy()", "value.view()"), ["C17.a", "C17.b", "C17.c"]),
        Variant("a-ensure-copy-is-alias-ellipsis-slice", "bad", replace_expr(sm, "StateManager._ensure_copy", "value.copy()", "value[...]"), ["C17.a", "C17.b", "C17.c"]),
        Variant("a-ensure-copy-is-alias-reshape-same", "bad", replace_expr(sm, "StateManager._ensure_copy", "value.copy()", "value.reshape(value.shape)"), ["C17.a", "C17.b", "C17.c"]),
        Variant("a-ensure-copy-is-alias-astype-copy-false", "bad", replace_expr(sm, "StateManager._ensure_copy", "value.copy()", "value.astype(value.dtype, copy=False)"), ["C17.a", "C17.b", "C17.c"]),
        Variant("a-ensure-copy-is-alias-ascontiguous", "bad", replace_expr(sm, "StateManager._ensure_copy", "value.copy()", "np.ascontiguousarray(value)"), ["C17.a", "C17.b", "C17.c"]),
        Variant("benign-hoist-hist", "benign", replace_stmt(sm, "StateManager.get_history", "return self._ensure_copy(self._history[key][index])", "batch = self._history[key][index]\nreturn self._ensure_copy(batch)")),
    ]


def _copy_default_false(node, tree):
    a = node.args
    for i, p in enumerate(a.args):
        if p.arg == "copy":
            a.defaults[i - (len(a.args) - len(a.defaults))] = ast.Constant(value=False)
            return True
    return False
