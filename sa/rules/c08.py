"""C08  Checkpoints restore exactly, resume continues the run, saves are crash-safe.

Structural clauses decided (all paths of the code, not sampled runs):
  C08.a  the checkpoint loader updates the *live* state object in place on every
         path (a factory classmethod whose result is discarded restores nothing)
  C08.b  no attribute store into a frozen dataclass instance (the pool-detaching
         code in the checkpoint writer)
  C08.c  atomic checkpoint protocol: temp name != final name, dump -> flush ->
         fsync inside the handle's lifetime, rename/replace(temp, final) after it
  C08.d  writer/reader key tables agree (exported keys are imported into the
         attribute of the same name; every key the loader consumes is written)
  C08.e  resume does not re-initialise: after a load, counters/schedule keys are
         only defaulted under an `is None` guard on that key; t0 comes from the
         restored iteration counter
  C08.f  cadence: periodic save guarded by (iter - t0) % save_every == 0; final
         save after the loop when save_every is set
"""
from __future__ import annotations

import ast
from typing import Dict, List, Optional, Set, Tuple

from ..cfg import cfg_of
from ..dataflow import Resolver as ExprResolver
from ..dataflow import expr_leaves, flow_of
from ..engine import Context, Reporter
from ..model import AnalysisError, ClassInfo, FuncInfo, dotted, norm_text, walk_no_nested
from ..util import call_arg, calls_in, calls_in_node, conds_holding_at, is_none_test, is_const, nodes_calling, strip_wrappers, unparse, const_value

PROP = "C08"
EXPLANATION = (
    "Static decision of six structural clauses of C08 over every path of the checkpoint code: (a) the loader "
    "imports the loaded dictionary into the live, shared state object on every path and no fresh-instance factory "
    "result is discarded; (b) no attribute store targets a frozen dataclass; (c) every function that serialises to a "
    "write handle follows temp-name -> dump -> flush -> fsync -> rename/replace(temp, final); (d) export/import key "
    "tables agree; (e) the resume path never re-initialises iter/calls/beta/logz except under an is-None guard and "
    "derives t0 from the restored counter; (f) periodic and final saves are wired to save_every. Decides code shape "
    "only: bit-exact equality of restored arrays, picklability of user objects and directory fsync are not decided."
    " Also under (c): the temporary file is opened for truncating write, callers of the writers make no non-atomic second copy of a checkpoint, and no name built from the output label is cut at a dot."
)
ASSUMPTIONS = [
    "dill.dump/dill.load serialise and restore the dictionary faithfully",
    "os.rename/os.replace are atomic on the target file system",
    "receiver types follow the wiring in SamplerCore.__init__ (no monkey-patching)",
]

SCHEDULE_KEYS = ("iter", "calls", "beta", "logz")


# ----------------------------------------------------------------- summaries
def state_class(ctx: Context) -> ClassInfo:
    return ctx.state.state_cls


def _direct_imports(ctx: Context) -> Dict[str, FuncInfo]:
    """Methods of the state class that read the exported keys out of a parameter
    and store into self._current / self._history themselves."""
    sc = state_class(ctx)
    out = {}
    for name, m in sc.methods.items():
        if m.is_classmethod or m.is_staticmethod or name.startswith("__"):
            continue
        params = [p for p in m.params if p != "self"]
        if not params:
            continue
        stores = _internal_stores(m, "self")
        srcs = set()
        for (attr, valexpr, node) in stores:
            if valexpr is None:
                continue
            n = flow_of(m.node).node_containing(node)
            if n is None:
                continue
            leaves, _ = expr_leaves(m.node, valexpr, n)
            srcs |= {l.text for l in leaves if l.kind == "param"}
        touched = {a for (a, _, _) in stores}
        reads_export_keys = any(_str_keys_used(m.node, p) & {"_current", "_history"} for p in params)
        if ({"_current", "_history"} & touched) and (set(params) & srcs) and reads_export_keys:
            out[name] = m
    return out


def _import_helpers(ctx: Context, m: FuncInfo) -> List[Tuple[FuncInfo, str]]:
    """(function, name of the parameter that carries the state dictionary) for m
    and for the helpers of the same class that m hands its dictionary to."""
    params = [p for p in m.params if p != "self"]
    if not params:
        return []
    out = [(m, params[0])]
    for c in calls_in(m.node):
        if isinstance(c.func, ast.Attribute) and isinstance(c.func.value, ast.Name) and c.func.value.id in ("self", "instance") or (isinstance(c.func, ast.Attribute) and isinstance(c.func.value, ast.Name)):
            for t in ctx.res.call_targets(m, c):
                if isinstance(t, FuncInfo) and t.cls is m.cls and t is not m:
                    tp = [p for p in t.params if p not in ("self", "cls")]
                    for i, a in enumerate(c.args):
                        if isinstance(a, ast.Name) and a.id == params[0] and i < len(tp):
                            out.append((t, tp[i]))
    return out


def mutating_imports(ctx: Context) -> Dict[str, FuncInfo]:
    """In-place imports: direct ones plus methods that pass their dictionary on
    to a direct import of the same object (extracted helpers)."""
    sc = state_class(ctx)
    direct = _direct_imports(ctx)
    out = dict(direct)
    changed = True
    while changed:
        changed = False
        for name, m in sc.methods.items():
            if name in out or m.is_classmethod or m.is_staticmethod or name.startswith("__"):
                continue
            for (t, p) in _import_helpers(ctx, m)[1:]:
                if t.name in out:
                    # the helper must be invoked on self (in-place), not on a fresh instance
                    if any(isinstance(c.func, ast.Attribute) and c.func.attr == t.name and isinstance(c.func.value, ast.Name) and c.func.value.id == "self" for c in calls_in(m.node)):
                        out[name] = m
                        changed = True
    return out


def _internal_stores(m: FuncInfo, recv: str) -> List[Tuple[str, Optional[ast.expr], ast.AST]]:
    """(attr, value expression, node) for stores into recv._current/_history/n_dim:
    recv.attr = v, recv.attr[k] = v, recv.attr.update(v)."""
    out = []
    for n in walk_no_nested(m.node):
        if isinstance(n, (ast.Assign, ast.AugAssign, ast.AnnAssign)):
            tgts = n.targets if isinstance(n, ast.Assign) else [n.target]
            for t in tgts:
                base = t
                if isinstance(base, ast.Subscript):
                    base = base.value
                if isinstance(base, ast.Attribute) and isinstance(base.value, ast.Name) and base.value.id == recv:
                    out.append((base.attr, n.value, n))
        elif isinstance(n, ast.Call) and isinstance(n.func, ast.Attribute) and n.func.attr in ("update", "extend", "append", "__setitem__"):
            b = n.func.value
            if isinstance(b, ast.Subscript):
                b = b.value
            if isinstance(b, ast.Attribute) and isinstance(b.value, ast.Name) and b.value.id == recv:
                out.append((b.attr, n.args[-1] if n.args else None, n))
    return out


def fresh_factories(ctx: Context) -> List[FuncInfo]:
    """Classmethods / functions that construct a new instance and return it
    without touching any pre-existing receiver."""
    out = []
    for fi in ctx.prog.functions.values():
        if not fi.is_classmethod or fi.cls is None:
            continue
        rets = [r for r in walk_no_nested(fi.node) if isinstance(r, ast.Return) and r.value is not None]
        if not rets:
            continue
        flow = flow_of(fi.node)
        ok = True
        for r in rets:
            v = r.value
            if isinstance(v, ast.Call) and dotted(v.func) == "cls":
                continue
            if isinstance(v, ast.Name):
                ds = [d for ds in flow.defs_at.values() for d in ds if d.name == v.id]
                if ds and all(d.kind == "assign" and isinstance(d.value, ast.Call) and dotted(d.value.func) == "cls" for d in ds):
                    continue
            ok = False
        if ok:
            out.append(fi)
    return out


def loaders(ctx: Context) -> List[Tuple[FuncInfo, ast.Call, str]]:
    out = []
    for fi in ctx.prog.functions.values():
        for c in calls_in(fi.node):
            nm = ctx.res.external_name(fi, c)
            if nm in ("dill.load", "pickle.load", "dill.loads", "pickle.loads"):
                out.append((fi, c, nm))
    return out


def dumpers(ctx: Context) -> List[Tuple[FuncInfo, ast.Call, str]]:
    out = []
    for fi in ctx.prog.functions.values():
        for c in calls_in(fi.node):
            nm = ctx.res.external_name(fi, c)
            if nm in ("dill.dump", "pickle.dump"):
                out.append((fi, c, nm))
    return out


# ------------------------------------------------------------------ C08.a
def rule_a(ctx: Context, R: Reporter):
    sc = state_class(ctx)
    imports = mutating_imports(ctx)
    if not imports:
        raise AnalysisError("C08.a: the state class has no in-place import method (anchor vanished)")
    R.analysed["C08.a:mutating_imports"] = sorted(imports)
    factories = fresh_factories(ctx)
    R.analysed["C08.a:fresh_factories"] = [f.short for f in factories]
    # (1) discarded factory results anywhere in the package
    n_sites = 0
    for fi in ctx.prog.functions.values():
        for st in walk_no_nested(fi.node):
            if isinstance(st, ast.Expr) and isinstance(st.value, ast.Call):
                tg = ctx.res.call_targets(fi, st.value)
                for t in tg:
                    if isinstance(t, FuncInfo) and t in factories:
                        n_sites += 1
                        R.check(
                            "C08.a", "result of a fresh-instance factory must not be discarded", False, fi, st,
                            msg=f"`{unparse(st)}` builds a new {t.cls.name} and discards it; the receiver is not updated "
                                f"(use the in-place import {sorted(imports)})",
                            witness={"factory": t.qualname, "statement": unparse(st)},
                        )
    # (2) every loader imports into the live state on every path
    lds = loaders(ctx)
    R.floor("C08.a", "checkpoint loaders", len(lds), 2)
    for (fi, call, nm) in lds:
        flow = flow_of(fi.node)
        cfg = flow.cfg
        ln = flow.node_containing(call)
        # the variable holding the loaded object
        loaded_names = {d.name for d in flow.defs_at.get(ln.id, [])}
        # receiver that must be updated: `self` if fi.cls is the state class, else the attribute of state type
        import_nodes = []
        for n in cfg.stmt_nodes():
            for c in calls_in_node(n):
                if not isinstance(c.func, ast.Attribute) or c.func.attr not in imports:
                    continue
                rts = ctx.res.expr_types(fi, c.func.value)
                if sc not in rts:
                    continue
                # argument must carry the loaded data
                dep = False
                for a in list(c.args) + [k.value for k in c.keywords]:
                    leaves, visited = expr_leaves(fi.node, a, n)
                    if ln.id in visited or (names_of(a) & loaded_names and ln.id in {d.node.id for nm_ in names_of(a) for d in flow.reaching(n, nm_) if d.node}):
                        dep = True
                if dep:
                    import_nodes.append(n)
        ok = bool(import_nodes) and not cfg.reaches(ln.id, cfg.exit.id, blocked=[n.id for n in import_nodes])
        path = None
        if not ok:
            p = cfg.find_path(ln.id, cfg.exit.id, blocked=[n.id for n in import_nodes])
            path = [repr(cfg.nodes[i]) for i in (p or [])][:12]
        R.check(
            "C08.a", "loaded dictionary is imported in place into the live state object on every path", ok, fi, call,
            msg=f"a path from `{unparse(call)}` to the end of {fi.short} never calls an in-place import "
                f"({sorted(imports)}) of the state manager with the loaded data",
            witness={"path_without_import": path},
            key=f"load-without-import:{fi.short}",
        )


def names_of(e: ast.AST) -> Set[str]:
    return {n.id for n in ast.walk(e) if isinstance(n, ast.Name)}


# ------------------------------------------------------------------ C08.b
def rule_b(ctx: Context, R: Reporter):
    frozen = [c for c in ctx.prog.classes.values() if c.is_frozen_dataclass]
    R.floor("C08.b", "frozen dataclasses", len(frozen), 1)
    n_stores = 0
    for fi in ctx.prog.functions.values():
        for st in walk_no_nested(fi.node):
            tgts = []
            if isinstance(st, ast.Assign):
                tgts = st.targets
            elif isinstance(st, (ast.AugAssign, ast.AnnAssign)):
                tgts = [st.target]
            elif isinstance(st, ast.Delete):
                tgts = st.targets
            flat = []
            for t in tgts:
                flat += t.elts if isinstance(t, (ast.Tuple, ast.List)) else [t]
            for t in flat:
                if not isinstance(t, ast.Attribute):
                    continue
                n_stores += 1
                rts = ctx.res.expr_types(fi, t.value)
                for rt in rts:
                    if isinstance(rt, ClassInfo) and rt.is_frozen_dataclass:
                        R.check(
                            "C08.b", "no attribute store into a frozen dataclass", False, fi, st,
                            msg=f"`{unparse(st)}` assigns to field `{t.attr}` of frozen dataclass {rt.name}: raises FrozenInstanceError at run time",
                            witness={"receiver": unparse(t.value), "class": rt.qualname},
                        )
            # setattr(obj, ...) / object.__setattr__(obj, ...) outside the class itself
        for c in calls_in(fi.node):
            d = dotted(c.func)
            if d in ("setattr", "object.__setattr__", "delattr") and c.args:
                rts = ctx.res.expr_types(fi, c.args[0])
                for rt in rts:
                    if isinstance(rt, ClassInfo) and rt.is_frozen_dataclass and not (fi.cls is rt and fi.name == "__post_init__"):
                        R.check(
                            "C08.b", "no setattr on a frozen dataclass outside its __post_init__", False, fi, c,
                            msg=f"`{unparse(c)}` mutates frozen dataclass {rt.name} outside its own __post_init__",
                        )
    R.analysed["C08.b:attribute_stores_scanned"] = n_stores
    R.check("C08.b", f"scanned {n_stores} attribute stores against {len(frozen)} frozen dataclass(es)", True, None, None,
            key="scan", loc="tempest/")


# ------------------------------------------------------------------ C08.c
RENAMES = ("os.rename", "os.replace")
NON_ATOMIC_MOVES = ("shutil.move", "shutil.copy", "shutil.copy2", "shutil.copyfile")


def blob_writers(ctx: Context) -> List[Tuple[FuncInfo, ast.Call]]:
    """Writes of an in-memory pickle: path.write_bytes(dill.dumps(..)) / handle.write(dill.dumps(..))."""
    out = []
    for fi in ctx.prog.functions.values():
        for c in calls_in(fi.node):
            if isinstance(c.func, ast.Attribute) and c.func.attr in ("write_bytes", "write", "write_text") and c.args:
                rx = c.args[0]
                names = [rx] + [flow_of(fi.node).reaching(flow_of(fi.node).node_containing(c), rx.id)[0].value for _ in [0] if isinstance(rx, ast.Name) and len(flow_of(fi.node).reaching(flow_of(fi.node).node_containing(c), rx.id)) == 1]
                if any(isinstance(x, ast.Call) and (ctx.res.external_name(fi, x) or "") in ("dill.dumps", "pickle.dumps") for n0 in names if n0 is not None for x in ast.walk(n0)):
                    out.append((fi, c))
    return out


def rule_c(ctx: Context, R: Reporter):
    ds = dumpers(ctx)
    bw = blob_writers(ctx)
    for (fi, c) in bw:
        R.check("C08.c", "a checkpoint is written through a handle that is flushed and fsynced before the rename", False, fi, c,
                msg=f"{fi.short}: `{unparse(c)[:70]}` writes the pickle without a handle on which flush() and os.fsync() are called: after the rename a power loss can leave an empty or "
                    f"truncated file under the checkpoint's final name", key="write-without-handle-sync")
    R.floor("C08.c", "checkpoint writers", len({f.qualname for (f, _, _) in ds} | {f.qualname for (f, _) in bw}), 2)
    for (fi, dump, nm) in ds:
        flow = flow_of(fi.node)
        cfg = flow.cfg
        dn = flow.node_containing(dump)
        handle = call_arg(dump, 1, "file")
        if not isinstance(handle, ast.Name):
            raise AnalysisError(f"C08.c: {fi.short}: dump target `{unparse(handle)}` is not a simple handle name")
        hdefs = flow.reaching(dn, handle.id)
        # a non-atomic move onto the final name (copy + delete across file systems) is never acceptable
        for c2 in calls_in(fi.node):
            if (ctx.res.external_name(fi, c2) or "") in NON_ATOMIC_MOVES:
                R.check("C08.c", "the temporary file is moved onto the final name atomically (os.replace / os.rename)", False, fi, c2,
                        msg=f"{fi.short}: `{unparse(c2)[:60]}` is not an atomic rename: across file systems it copies into the final name (truncating a good checkpoint first, "
                            f"without fsync), so a crash during the move leaves an unloadable file", key="non-atomic-move")
        opener = dotted(hdefs[0].value.func) if len(hdefs) == 1 and isinstance(hdefs[0].value, ast.Call) else ""
        opener_ext = (ctx.res.external_name(fi, hdefs[0].value) or "") if len(hdefs) == 1 and isinstance(hdefs[0].value, ast.Call) else ""
        if len(hdefs) != 1 or hdefs[0].kind != "with" or not (opener == "open" or opener_ext == "tempfile.NamedTemporaryFile"):
            raise AnalysisError(f"C08.c: {fi.short}: handle `{handle.id}` is not bound by `with open(...)` (unmodelled idiom)")
        open_call: ast.Call = hdefs[0].value
        with_node = hdefs[0].node
        if opener_ext == "tempfile.NamedTemporaryFile":
            final_params0 = [p for p in fi.params if p not in ("self", "cls")]
            dkw = next((k.value for k in open_call.keywords if k.arg == "dir"), None)
            drx = ExprResolver(fi.node).resolve(dkw, with_node) if dkw is not None else None
            near = drx is not None and any(isinstance(x, ast.Name) and x.id in final_params0 for x in ast.walk(drx))
            keep = any(k.arg == "delete" and const_value(k.value) is False for k in open_call.keywords)
            R.check("C08.c", "a NamedTemporaryFile used for the checkpoint lives next to the final name and survives close", near and keep, fi, open_call,
                    msg=f"{fi.short}: `{unparse(open_call)[:70]}` creates the temporary file " + ("in the system temp directory (no dir= derived from the checkpoint path): the move onto "
                        "the final name crosses file systems and is not atomic" if not near else "with delete=True"), key="tempfile-next-to-final")
            mode = call_arg(open_call, 0, "mode")
            opened = ast.Attribute(value=ast.Name(id=handle.id, ctx=ast.Load()), attr="name", ctx=ast.Load())
            tempfile_mode = True
        else:
            tempfile_mode = False
            mode = call_arg(open_call, 1, "mode")
        if not (isinstance(mode, ast.Constant) and isinstance(mode.value, str) and ("w" in mode.value or "a" in mode.value or "x" in mode.value)):
            continue  # not a writer
        if not tempfile_mode:
            opened = call_arg(open_call, 0, "file")
            trunc = "w" in mode.value and "a" not in mode.value and "x" not in mode.value
            R.check("C08.c", "the temporary file is opened for truncating write (a stale temporary left by a crash is simply overwritten)", trunc, fi, open_call,
                    msg=f"{fi.short}: `{unparse(open_call)[:60]}` opens the temporary name with mode {mode.value!r}: a crash during an earlier save leaves that name behind, after which "
                        + ("every later save to the same checkpoint name raises FileExistsError (the resumed run aborts at its first checkpoint)" if "x" in mode.value
                           else "the new pickle is appended to the truncated one and the published checkpoint cannot be loaded"), key="temp-open-mode")
        # final name = the path parameter of the function
        final_params = [p for p in fi.params if p not in ("self", "cls")]
        rs = ExprResolver(fi.node)
        opened_res = rs.resolve(opened, with_node)
        stripped = strip_wrappers(opened_res)
        is_final = isinstance(stripped, ast.Name) and stripped.id in final_params
        derived = any(isinstance(x, ast.Name) and x.id in final_params for x in ast.walk(opened_res))
        ok_temp = ((not is_final) and derived) or tempfile_mode
        R.check(
            "C08.c", "checkpoint is written to a temporary name, never directly to the final name", ok_temp, fi, open_call,
            msg=f"`{unparse(open_call)}` opens {'the final checkpoint name' if is_final else 'a name not derived from the final path'} for writing: "
                f"a crash during the dump leaves a truncated file under the final name",
            witness={"opened": unparse(opened_res), "final": final_params},
            key="open-final-for-write" if not ok_temp else None,
        )
        # body order: dump -> flush -> fsync, all inside the with body, on every path from dump to leaving the with
        body_ids = {n.id for n in cfg.nodes if n.stmt is not None and any(n.stmt is s for s in ast.walk(hdefs[0].stmt) if isinstance(s, ast.stmt)) and n.id != with_node.id}
        flush_nodes = []
        fsync_nodes = []
        for n in cfg.stmt_nodes():
            if n.id not in body_ids:
                continue
            for c in calls_in_node(n):
                if isinstance(c.func, ast.Attribute) and c.func.attr == "flush" and isinstance(c.func.value, ast.Name) and c.func.value.id == handle.id:
                    flush_nodes.append(n)
                if ctx.res.external_name(fi, c) in ("os.fsync", "os.fdatasync") and handle.id in names_of(c):
                    fsync_nodes.append(n)
        exits_of_with = {t for b in body_ids | {with_node.id} for (t, lab_) in cfg.succ[b] if t not in body_ids and t != with_node.id and not (lab_ and lab_[0] == "exc")}
        normal_exits = {t for t in exits_of_with if t != cfg.raise_exit.id and cfg.nodes[t].kind != "except"}

        def all_paths_pass(src, targets, through):
            return all(not cfg.reaches(src, t, blocked=[x.id for x in through]) for t in targets) if through else False

        ok_flush = all_paths_pass(dn.id, normal_exits, flush_nodes)
        ok_fsync = all(all_paths_pass(f.id, normal_exits, fsync_nodes) for f in flush_nodes) and bool(flush_nodes)
        R.check("C08.c", "dump is followed by flush on every path inside the handle's lifetime", ok_flush, fi, dump,
                msg=f"{fi.short}: no `{handle.id}.flush()` after the dump before the handle is closed",
                key="dump-without-flush" if not ok_flush else None)
        R.check("C08.c", "flush is followed by fsync on every path inside the handle's lifetime", ok_fsync, fi, dump,
                msg=f"{fi.short}: no `os.fsync({handle.id}.fileno())` after flush before the handle is closed: the rename can reach disk before the data",
                key="flush-without-fsync" if not ok_fsync else None)
        # rename(temp, final) after the with, on every normal path to exit
        ren_nodes = []
        for n in cfg.stmt_nodes():
            if n.id in body_ids or n.id == with_node.id:
                continue
            for c in calls_in_node(n):
                en = ctx.res.external_name(fi, c)
                src = dst = None
                if en in RENAMES:
                    src, dst = call_arg(c, 0, "src"), call_arg(c, 1, "dst")
                elif isinstance(c.func, ast.Attribute) and c.func.attr in ("rename", "replace") and len(c.args) == 1:
                    src, dst = c.func.value, c.args[0]
                if src is None or dst is None:
                    continue
                src_r = strip_wrappers(rs.resolve(src, n))
                dst_r = strip_wrappers(rs.resolve(dst, n))
                same_src = norm_text(src_r) == norm_text(strip_wrappers(opened_res))
                dst_final = isinstance(dst_r, ast.Name) and dst_r.id in final_params
                if same_src and dst_final:
                    ren_nodes.append(n)
        ok_ren = bool(ren_nodes) and all(not cfg.reaches(t, cfg.exit.id, blocked=[x.id for x in ren_nodes]) or t in [x.id for x in ren_nodes] for t in normal_exits if t != cfg.exit.id) and cfg.exit.id not in normal_exits
        R.check("C08.c", "rename/replace(temp, final) follows the closed handle on every path to return", ok_ren, fi, hdefs[0].stmt,
                msg=f"{fi.short}: the written file is not atomically moved onto the final name after the handle is closed",
                key="no-rename-after-write" if not ok_ren else f"rename:{fi.short}")
        # nothing else writes the final name
        others = []
        for c in calls_in(fi.node):
            if c is open_call or dotted(c.func) != "open":
                continue
            m2 = call_arg(c, 1, "mode")
            if isinstance(m2, ast.Constant) and isinstance(m2.value, str) and any(ch in m2.value for ch in "wax"):
                others.append(c)
        for c in others:
            n = flow.node_containing(c)
            p = strip_wrappers(rs.resolve(call_arg(c, 0, "file"), n))
            if isinstance(p, ast.Name) and p.id in final_params:
                R.check("C08.c", "no second writer opens the final name", False, fi, c,
                        msg=f"`{unparse(c)}` opens the final checkpoint name for writing")

    # callers of the checkpoint writers (two levels up): a second, non-atomic publication of the file just written
    writer_fns = {f.qualname for (f, _, _) in ds} | {f.qualname for (f, _) in bw}
    level = set(writer_fns)
    callers = set()
    for _ in range(2):
        nxt = set()
        for fi in ctx.prog.functions.values():
            if fi.qualname in level or fi.qualname in callers:
                continue
            for (call, tg) in ctx.cg.sites.get(fi.qualname, []):
                if any(isinstance(t, FuncInfo) and t.qualname in level for t in tg):
                    nxt.add(fi.qualname)
        callers |= nxt
        level = nxt
    n_callers = 0
    for q in sorted(callers):
        fi = ctx.prog.functions[q]
        n_callers += 1
        for c2 in calls_in(fi.node):
            en = ctx.res.external_name(fi, c2) or ""
            if en in NON_ATOMIC_MOVES or en in ("os.link", "shutil.copyfileobj", "shutil.copytree"):
                R.check("C08.c", "a checkpoint is published under a final name only by the atomic rename of its own temporary file", False, fi, c2,
                        msg=f"{fi.short}: `{unparse(c2)[:70]}` publishes a second copy of a checkpoint by copying: the copy is written in place under its final name, "
                            f"so a crash during it leaves a truncated, unloadable state file", key="non-atomic-copy-of-checkpoint")
    R.floor("C08.c", "callers of the checkpoint writers examined for non-atomic copies", n_callers, 2)
    # checkpoint names: nothing cuts a name that contains the user's label at a dot
    n_label = 0
    for fi in ctx.prog.functions.values():
        tainted: Set[str] = {p for p in fi.params if p in ("output_label", "label")}

        def mentions(e):
            return any((isinstance(x, ast.Attribute) and x.attr == "output_label") or (isinstance(x, ast.Name) and x.id in tainted) for x in ast.walk(e))

        changed = True
        while changed:
            changed = False
            for st in walk_no_nested(fi.node):
                if isinstance(st, ast.Assign) and mentions(st.value):
                    for t in st.targets:
                        for x in ast.walk(t):
                            if isinstance(x, ast.Name) and x.id not in tainted:
                                tainted.add(x.id)
                                changed = True
        for x in walk_no_nested(fi.node):
            recv = None
            if isinstance(x, ast.Call) and isinstance(x.func, ast.Attribute) and x.func.attr in ("with_suffix", "with_stem", "rsplit", "rpartition", "removesuffix"):
                recv = x.func.value
            elif isinstance(x, ast.Call) and (ctx.res.external_name(fi, x) or "") in ("os.path.splitext", "posixpath.splitext") and x.args:
                recv = x.args[0]
            elif isinstance(x, ast.Attribute) and x.attr in ("stem", "suffix", "suffixes") and isinstance(x.ctx, ast.Load):
                recv = x.value
            if recv is not None and mentions(recv):
                R.check("C08.c", "a checkpoint name keeps the user's label and the iteration tag whole", False, fi, x,
                        msg=f"{fi.short}: `{unparse(x)[:70]}` cuts a name built from the output label at its last dot: with a label that contains a dot ('run_v1.5') the iteration tag is "
                            f"cut off and every checkpoint of the run overwrites one file", key="label-cut-at-dot")
        if any(isinstance(x, ast.Attribute) and x.attr == "output_label" and isinstance(x.ctx, ast.Load) for x in walk_no_nested(fi.node)):
            n_label += 1
    R.floor("C08.c", "functions that build names from the output label", n_label, 1)


# ------------------------------------------------------------------ C08.d
def _str_keys_used(fn: ast.AST, var: str) -> Set[str]:
    """String keys with which dict variable `var` is read in fn: var["k"],
    "k" in var, var.get("k")."""
    out = set()
    for n in walk_no_nested(fn):
        if isinstance(n, ast.Subscript) and isinstance(n.value, ast.Name) and n.value.id == var and isinstance(n.ctx, ast.Load):
            if isinstance(n.slice, ast.Constant) and isinstance(n.slice.value, str):
                out.add(n.slice.value)
        elif isinstance(n, ast.Compare) and len(n.ops) == 1 and isinstance(n.ops[0], (ast.In, ast.NotIn)):
            if isinstance(n.comparators[0], ast.Name) and n.comparators[0].id == var and isinstance(n.left, ast.Constant) and isinstance(n.left.value, str):
                out.add(n.left.value)
        elif isinstance(n, ast.Call) and isinstance(n.func, ast.Attribute) and n.func.attr in ("get", "pop") and isinstance(n.func.value, ast.Name) and n.func.value.id == var:
            if n.args and isinstance(n.args[0], ast.Constant) and isinstance(n.args[0].value, str):
                out.add(n.args[0].value)
    return out


def _str_keys_stored(fn: ast.AST, var: str) -> Set[str]:
    out = set()
    for n in walk_no_nested(fn):
        if isinstance(n, ast.Subscript) and isinstance(n.value, ast.Name) and n.value.id == var and isinstance(n.ctx, ast.Store):
            if isinstance(n.slice, ast.Constant) and isinstance(n.slice.value, str):
                out.add(n.slice.value)
    return out


def exporter(ctx: Context) -> Tuple[FuncInfo, ast.Dict]:
    sc = state_class(ctx)
    for m in sc.methods.values():
        if m.is_classmethod or [p for p in m.params if p != "self"]:
            continue
        for r in walk_no_nested(m.node):
            if isinstance(r, ast.Return) and isinstance(r.value, ast.Dict):
                keys = [k.value for k in r.value.keys if isinstance(k, ast.Constant)]
                if "_current" in keys and "_history" in keys:
                    return m, r.value
    raise AnalysisError("C08.d: exporter (method returning {'_current':..,'_history':..}) not found")


def _upward_exposed(m: FuncInfo, use: ast.AST, attr: str) -> bool:
    """The read of self.<attr> at `use` can see a value stored before the method was entered: some path from the
    entry reaches it without passing a store to self.<attr> made by the method itself."""
    fl = flow_of(m.node)
    at = fl.node_containing(use)
    if at is None:
        return True
    stores = []
    for nd in fl.cfg.stmt_nodes():
        if nd.kind == "stmt" and isinstance(nd.stmt, (ast.Assign, ast.AnnAssign)) and nd.id != at.id:
            tg = nd.stmt.targets if isinstance(nd.stmt, ast.Assign) else [nd.stmt.target]
            for t in tg:
                for tt in (t.elts if isinstance(t, (ast.Tuple, ast.List)) else [t]):
                    if isinstance(tt, ast.Attribute) and isinstance(tt.value, ast.Name) and tt.value.id == "self" and tt.attr == attr:
                        stores.append(nd.id)
    if not stores:
        return True
    return fl.cfg.reaches(fl.cfg.entry.id, at.id, blocked=stores)


def _reads_iter(e: ast.AST) -> bool:
    return any(isinstance(c, ast.Call) and isinstance(c.func, ast.Attribute) and c.func.attr == "get_current"
               and isinstance(call_arg(c, 0, "key"), ast.Constant) and call_arg(c, 0, "key").value == "iter" for c in ast.walk(e))


def _returns_restored_iter(ctx: Context, fi: FuncInfo, value: ast.AST) -> bool:
    """`value` is a call of a method whose every returned value reads the restored 'iter' (directly, through locals,
    or through an attribute of self the method stores from it before returning)."""
    if not isinstance(value, ast.Call):
        return False
    tgts = [t for t in ctx.res.call_targets(fi, value) if isinstance(t, FuncInfo)]
    if not tgts:
        return False
    for t in tgts:
        fl = flow_of(t.node)
        rets = [r for r in walk_no_nested(t.node) if isinstance(r, ast.Return)]
        if not rets or any(r.value is None for r in rets):
            return False
        for r in rets:
            rn = fl.node_containing(r)
            if rn is None:
                return False
            rv = ExprResolver(t.node).resolve(r.value, rn)
            if _reads_iter(rv):
                continue
            ok = False
            if isinstance(r.value, ast.Attribute) and isinstance(r.value.value, ast.Name) and r.value.value.id == "self":
                stores = [nd for nd in fl.cfg.stmt_nodes() if nd.kind == "stmt" and isinstance(nd.stmt, ast.Assign)
                          and any(isinstance(tt, ast.Attribute) and dotted(tt) == dotted(r.value) for tt in nd.stmt.targets)]
                if stores and not fl.cfg.reaches(fl.cfg.entry.id, rn.id, blocked=[nd.id for nd in stores]):
                    ok = all(_reads_iter(ExprResolver(t.node).resolve(nd.stmt.value, nd)) for nd in stores if fl.cfg.reaches(nd.id, rn.id))
            if not ok:
                return False
    return True


def rule_d(ctx: Context, R: Reporter):
    exp, dlit = exporter(ctx)
    exported = {k.value: v for k, v in zip(dlit.keys, dlit.values) if isinstance(k, ast.Constant)}
    imports = mutating_imports(ctx)
    # exported values read the attribute of the same name (locals resolved)
    eflow = flow_of(exp.node)
    ers = ExprResolver(exp.node)
    for k, v in exported.items():
        at = eflow.node_containing(v)
        rv = ers.resolve(v, at) if at is not None else v
        attrs = {dotted(a) for a in ast.walk(rv) if isinstance(a, ast.Attribute)}
        ok = f"self.{k}" in attrs
        R.check("C08.d", f"exported key '{k}' carries the attribute of the same name", ok, exp, v,
                msg=f"{exp.short}: key '{k}' is exported from `{unparse(rv)[:60]}`, not from self.{k}", key=f"export:{k}")
    # each in-place import restores state_dict[k] into self.k for every exported key (possibly through a helper)
    for name, m in imports.items():
        if name.startswith("_"):
            continue  # private helper of an import: checked through the public entry that calls it
        group = _import_helpers(ctx, m)
        for k in exported:
            okk = False
            for (f, param) in group:
                recv = "self"
                for (a, v, n) in [(a, v, n) for (a, v, n) in _internal_stores(f, recv) if a == k]:
                    if v is None:
                        continue
                    node = flow_of(f.node).node_containing(n)
                    rv = ExprResolver(f.node).resolve(v, node) if node is not None else v
                    for s_ in ast.walk(rv):
                        if isinstance(s_, ast.Subscript) and isinstance(s_.value, ast.Name) and s_.value.id == param and isinstance(s_.slice, ast.Constant) and s_.slice.value == k:
                            okk = True
                    if not okk and node is not None:
                        leaves, visited = expr_leaves(f.node, v, node)
                        for vid in visited | {node.id} | set(node.loops):
                            vn = flow_of(f.node).cfg.nodes[vid]
                            if vn.kind == "for":
                                for s_ in ast.walk(vn.stmt.iter):
                                    if isinstance(s_, ast.Subscript) and isinstance(s_.value, ast.Name) and s_.value.id == param and isinstance(s_.slice, ast.Constant) and s_.slice.value == k:
                                        okk = True
            R.check("C08.d", f"import `{name}` restores exported key '{k}' into self.{k}", okk, m, m.node,
                    msg=f"{m.short}: nothing stores the dictionary's '{k}' into self.{k} (in {[f.short for (f, p) in group]}): a saved '{k}' is not restored",
                    key=f"import:{name}:{k}")
    # a key filter on the way in keeps every key of the section it guards: `if key in K:` around a store into
    # self.<section>[key] needs K to contain all keys <section> is created with
    from .c07 import _const_set

    sc0 = state_class(ctx)
    init = sc0.methods.get("__init__")
    section_keys: Dict[str, Set[str]] = {}
    if init is not None:
        for x in walk_no_nested(init.node):
            if isinstance(x, ast.Assign) and len(x.targets) == 1 and isinstance(x.targets[0], ast.Attribute) and isinstance(x.targets[0].value, ast.Name) and x.targets[0].value.id == "self":
                v = x.value
                ks = None
                if isinstance(v, ast.Call) and isinstance(v.func, ast.Attribute) and v.func.attr == "fromkeys" and v.args:
                    ks = _const_set(sc0.module, v.args[0])
                elif isinstance(v, ast.DictComp) and len(v.generators) == 1:
                    ks = _const_set(sc0.module, v.generators[0].iter)
                if ks:
                    section_keys[x.targets[0].attr] = ks
    for name, m in imports.items():
        for (f, param) in _import_helpers(ctx, m):
            fl = flow_of(f.node)
            for nd in fl.cfg.stmt_nodes():
                if nd.kind != "stmt" or not isinstance(nd.stmt, ast.Assign) or not isinstance(nd.stmt.targets[0], ast.Subscript):
                    continue
                t = nd.stmt.targets[0]
                if not (isinstance(t.value, ast.Attribute) and t.value.attr in section_keys and isinstance(t.slice, ast.Name)):
                    continue
                kv = t.slice.id
                for (tt, pol) in conds_holding_at(fl.cfg, nd):
                    if pol and isinstance(tt, ast.Compare) and len(tt.ops) == 1 and isinstance(tt.ops[0], ast.In) and isinstance(tt.left, ast.Name) and tt.left.id == kv:
                        allowed = _const_set(f.module, tt.comparators[0])
                        if allowed is None:
                            continue
                        missing = sorted(section_keys[t.value.attr] - allowed)
                        R.check("C08.d", f"{f.short}: the key filter of section `{t.value.attr}` admits every key of that section", not missing, f, tt,
                                msg=f"{f.short}: `{unparse(tt)}` guards the restore of self.{t.value.attr} but lacks {missing}: those quantities are silently dropped on load "
                                    f"(the restored particle state differs from the saved one)", key=f"import-filter:{f.short}:{t.value.attr}")
    # the checkpoint writer(s) of the core write every key the loader consumes
    sc = state_class(ctx)
    written: Dict[str, Set[str]] = {}
    for (fi, dump, nm) in dumpers(ctx):
        obj = call_arg(dump, 0, "obj")
        if isinstance(obj, ast.Name):
            keys = _str_keys_stored(fi.node, obj.id)
            flow = flow_of(fi.node)
            for ds_ in flow.defs_at.values():
                for d in ds_:
                    if d.name == obj.id and d.kind == "assign" and d.value is not None:
                        if isinstance(d.value, ast.Dict):
                            keys |= {k.value for k in d.value.keys if isinstance(k, ast.Constant)}
                        elif isinstance(d.value, ast.Call):
                            tg = ctx.res.call_targets(fi, d.value)
                            if exp in tg:
                                keys |= set(exported)
            written[fi.qualname] = keys
    for (fi, call, nm) in loaders(ctx):
        flow = flow_of(fi.node)
        ln = flow.node_containing(call)
        names = {d.name for d in flow.defs_at.get(ln.id, [])}
        consumed = set()
        for v in names:
            consumed |= _str_keys_used(fi.node, v)
        # keys consumed by the import it calls
        for name, m in imports.items():
            if any(isinstance(c.func, ast.Attribute) and c.func.attr == name for c in calls_in(fi.node)):
                for (f, param) in _import_helpers(ctx, m):
                    consumed |= _str_keys_used(f.node, param)
        # the matching writer: same class
        w = [k for q, k in written.items() if ctx.prog.functions[q].cls is fi.cls]
        if not w:
            continue
        missing = consumed - set().union(*w)
        R.check("C08.d", f"every key consumed by {fi.short} is written by the checkpoint writer of the same class", not missing, fi, call,
                msg=f"{fi.short} consumes keys {sorted(missing)} that no writer of {fi.cls.name if fi.cls else '?'} stores",
                witness={"consumed": sorted(consumed), "written": sorted(set().union(*w))}, key=f"keys:{fi.short}")


    # result attributes: what the run driver stores on the object and a value-returning method of the same class
    # reads back (the number of samples asked for, the evidence error, ...) is part of the checkpoint: written under
    # a key of the same name and restored by the loader -- otherwise a restored sampler answers from a default
    from .c12 import run_driver as _run_driver

    try:
        drv, _loop = _run_driver(ctx)
    except AnalysisError:
        drv = None
    if drv is not None and drv.cls is not None:
        cls = drv.cls
        assigned = {}
        for n_ in walk_no_nested(drv.node):
            if isinstance(n_, ast.Assign):
                for t in n_.targets:
                    for tt in (t.elts if isinstance(t, (ast.Tuple, ast.List)) else [t]):
                        if isinstance(tt, ast.Attribute) and isinstance(tt.value, ast.Name) and tt.value.id == "self":
                            assigned.setdefault(tt.attr, n_)
        readers = {}
        for m in cls.methods.values():
            if m is drv or m.name == "__init__" or not any(isinstance(r, ast.Return) and r.value is not None for r in walk_no_nested(m.node)):
                continue
            if any(m.qualname == q for q in written) or any(fi_.qualname == m.qualname for (fi_, _, _) in loaders(ctx)):
                continue
            for x in ast.walk(m.node):
                a_ = None
                if isinstance(x, ast.Attribute) and isinstance(x.value, ast.Name) and x.value.id == "self" and isinstance(x.ctx, ast.Load):
                    a_ = x.attr
                elif isinstance(x, ast.Call) and dotted(x.func) == "getattr" and len(x.args) >= 2 and isinstance(x.args[0], ast.Name) and x.args[0].id == "self" and isinstance(x.args[1], ast.Constant):
                    a_ = x.args[1].value
                if a_ in assigned and _upward_exposed(m, x, a_):
                    readers.setdefault(a_, m)
        wkeys = set().union(*[k for q, k in written.items() if ctx.prog.functions[q].cls is cls]) if any(ctx.prog.functions[q].cls is cls for q in written) else set()
        restored = set()
        for (lf, _c, _n) in loaders(ctx):
            if lf.cls is cls:
                for n_ in walk_no_nested(lf.node):
                    if isinstance(n_, ast.Assign):
                        for t in n_.targets:
                            if isinstance(t, ast.Attribute) and isinstance(t.value, ast.Name) and t.value.id == "self":
                                restored.add(t.attr)
                    elif isinstance(n_, ast.Call) and dotted(n_.func) == "setattr" and len(n_.args) == 3 and isinstance(n_.args[0], ast.Name) and n_.args[0].id == "self":
                        restored |= {x.value for x in ast.walk(n_.args[1]) if isinstance(x, ast.Constant) and isinstance(x.value, str)} or {"*"}
        n_res = 0
        for a_, m in sorted(readers.items()):
            vals = [v for (mm, st, v) in ctx.res.attr_assignments(cls, a_)] if hasattr(ctx.res, "attr_assignments") else []
            # collaborators wired in the constructor (steps, state, configuration) are not run results
            if any(isinstance(t, ClassInfo) for t in ctx.res.attr_type(cls, a_)):
                continue
            n_res += 1
            ok = a_ in wkeys and (a_ in restored or "*" in restored)
            R.check("C08.d", f"run result `{a_}` (read by {m.short}) is written to and restored from the checkpoint", ok, drv, assigned[a_],
                    msg=f"{drv.short}: `self.{a_}` is set by the run and read back by {m.short}, but it is {'not written by the checkpoint writer' if a_ not in wkeys else 'not restored by the loader'}: "
                        f"a sampler restored from a checkpoint answers from a default / stale value instead of the value the finished run computed", key=f"result-attr:{a_}")
        R.analysed["C08.d:run-result attributes"] = n_res


# ------------------------------------------------------------------ C08.e
def rule_e(ctx: Context, R: Reporter):
    lds = loaders(ctx)
    load_funcs = {fi.qualname for (fi, _, _) in lds}
    # functions that write a literal constant to >= 3 schedule keys unguarded = fresh initialisers
    const_writers: Dict[str, Set[str]] = {}
    for a in ctx.state.accesses:
        if a.mode == "write" and a.key in SCHEDULE_KEYS and is_const(a.value):
            const_writers.setdefault(a.func.qualname, set()).add(a.key)

    # (1) inside every function on the load path: constant writes to schedule keys are guarded by `get_current(key) is None`
    def guarded_by_none(fi: FuncInfo, acc) -> bool:
        flow = flow_of(fi.node)
        n = flow.node_containing(acc.call)
        if n is None:
            return False
        for (test, pol) in conds_holding_at(flow.cfg, n):
            nt = is_none_test(test)
            if nt is None:
                continue
            x, is_none = nt
            if (pol and not is_none) or (not pol and is_none):
                continue
            # x must be the current value of that key
            rx = ExprResolver(fi.node).resolve(x, n)
            for c in ast.walk(rx):
                if isinstance(c, ast.Call) and isinstance(c.func, ast.Attribute) and c.func.attr == "get_current":
                    k = call_arg(c, 0, "key")
                    if isinstance(k, ast.Constant) and k.value == acc.key:
                        return True
                    if isinstance(k, ast.Name):
                        # loop over a literal table of defaults: the same loop variable names the written key
                        wk = call_arg(acc.call, 0, "key")
                        if isinstance(wk, ast.Name) and wk.id == k.id:
                            return True
        return False

    # the resume entry: a function with a parameter flowing to a loader call, plus callees on that path
    roots = []
    for fi in ctx.prog.functions.values():
        if fi.qualname in load_funcs:
            continue
        for (n, call, hit) in nodes_calling(ctx.cg, fi, lambda g: g.qualname in load_funcs):
            roots.append((fi, n, call))
    # de-duplicate: keep functions whose CFG also contains a fresh-initialiser call or schedule-key writes (the run driver)
    drivers = []
    for (fi, n, call) in roots:
        fresh_nodes = [x for x in nodes_calling(ctx.cg, fi, lambda g: len(const_writers.get(g.qualname, ())) >= 3) if x[0].id != n.id]
        if fresh_nodes:
            drivers.append((fi, n, fresh_nodes))
    R.floor("C08.e", "run drivers that can either resume or start fresh", len(drivers), 1)
    for (fi, load_node, fresh_nodes) in drivers:
        cfg = cfg_of(fi.node)
        for (fn_node, fcall, hit) in fresh_nodes:
            both = cfg.reaches(load_node.id, fn_node.id) or cfg.reaches(fn_node.id, load_node.id)
            R.check("C08.e", "fresh initialisation and checkpoint load are on disjoint paths", not both, fi, fcall,
                    msg=f"{fi.short}: a path runs both the checkpoint load (`{unparse(load_node.ast)[:60]}`) and the fresh initialiser "
                        f"`{unparse(fcall)}` ({hit.short} writes constants to {sorted(const_writers[hit.qualname])}): resume would restart the schedule",
                    key=f"load+fresh:{fi.short}")
        # the resume branch is selected by the resume parameter
        conds = conds_holding_at(cfg, load_node)
        ok_sel = any(is_none_test(t) is not None and ((is_none_test(t)[1] is False and pol) or (is_none_test(t)[1] is True and not pol)) for (t, pol) in conds)
        R.check("C08.e", "the load is selected by `resume path is not None`", ok_sel, fi, load_node.ast,
                msg=f"{fi.short}: the checkpoint load is not guarded by a not-None test of the resume path", key=f"resume-guard:{fi.short}")
    # constant writes on the load path (loader functions and functions between driver and loader)
    on_path: Set[str] = set()
    for (fi, n, call) in roots:
        for t in ctx.cg.sites.get(fi.qualname, []):
            pass
    for q in load_funcs:
        on_path.add(q)
    for (fi, n, call) in roots:
        if fi.qualname not in {d[0].qualname for d in drivers}:
            on_path.add(fi.qualname)
    n_w = 0
    for a in ctx.state.accesses:
        if a.mode != "write" or a.func.qualname not in on_path:
            continue
        if a.key not in SCHEDULE_KEYS:
            continue
        flow = flow_of(a.func.node)
        n = flow.node_containing(a.call)
        leaves, visited = expr_leaves(a.func.node, a.value, n) if a.value is not None and n is not None else (set(), set())
        from_loaded = any(l.kind == "call" and l.text.endswith(("load", "loads")) for l in leaves)
        if from_loaded:
            continue
        n_w += 1
        ok = guarded_by_none(a.func, a)
        R.check("C08.e", f"default for '{a.key}' on the load path only under an `is None` guard on that key", ok, a.func, a.call,
                msg=f"{a.func.short}: `{unparse(a.call)}` overwrites restored '{a.key}' unconditionally after a checkpoint load",
                key=f"default:{a.func.short}:{a.key}")
    # in the drivers themselves: writes to schedule keys reachable from the load node
    for (fi, load_node, fresh_nodes) in drivers:
        cfg = cfg_of(fi.node)
        flow = flow_of(fi.node)
        for a in ctx.state.accesses:
            if a.func is not fi or a.mode != "write" or a.key not in SCHEDULE_KEYS:
                continue
            n = flow.node_containing(a.call)
            if n is None or not cfg.reaches(load_node.id, n.id):
                continue
            # loop body / post-loop recomputation are not re-initialisation: only writes before the sampling loop count
            if n.loops:
                continue
            loop_heads = [x for x in cfg.stmt_nodes() if x.kind == "test" and isinstance(x.stmt, ast.While)]
            if loop_heads and all(cfg.reaches(h.id, n.id) for h in loop_heads):
                continue
            n_w += 1
            ok = guarded_by_none(fi, a) or not is_const(a.value) and _derives_from_key(fi, a, n)
            R.check("C08.e", f"'{a.key}' is not re-initialised between load and loop", ok, fi, a.call,
                    msg=f"{fi.short}: `{unparse(a.call)}` after the checkpoint load resets '{a.key}'", key=f"reset:{fi.short}:{a.key}")
        # t0 passed to the iteration derives from the restored 'iter'
        for (call, targets) in ctx.cg.sites.get(fi.qualname, []):
            t0 = call_arg(call, None, "t0")
            if t0 is None:
                continue
            n = flow.node_containing(call)
            defs = flow.reaching(n, t0.id) if isinstance(t0, ast.Name) else []
            ok_all = bool(defs)
            detail = []
            for d in defs:
                if d.node is None:
                    ok_all = False
                    continue
                on_resume = cfg.reaches(load_node.id, d.node.id)
                load_calls = [c for c in ast.walk(load_node.ast) if isinstance(c, ast.Call)] if getattr(load_node, "ast", None) is not None else []
                loader_quals = {t.qualname for c in load_calls for t in ctx.res.call_targets(fi, c) if isinstance(t, FuncInfo)}
                is_loader_call = isinstance(d.value, ast.Call) and bool(loader_quals) and \
                    {t.qualname for t in ctx.res.call_targets(fi, d.value) if isinstance(t, FuncInfo)} <= loader_quals and \
                    bool([t for t in ctx.res.call_targets(fi, d.value) if isinstance(t, FuncInfo)])
                if (d.node.id == load_node.id or (on_resume and is_loader_call)) and d.value is not None:
                    # t0 is what the loader itself hands back: its returned value must read the restored counter
                    ri = _returns_restored_iter(ctx, fi, d.value)
                    detail.append((unparse(d.value), ri))
                    ok_all = ok_all and ri
                    continue
                if on_resume and is_const(d.value):
                    # fallback for a checkpoint without an iteration counter: legal only under `<restored iter> is None`
                    fb = False
                    for (t, pol) in conds_holding_at(cfg, d.node):
                        nt = is_none_test(t)
                        if nt is not None and nt[1] == pol:
                            rx0 = ExprResolver(fi.node).resolve(nt[0], d.node)
                            if any(isinstance(c, ast.Call) and isinstance(c.func, ast.Attribute) and c.func.attr == "get_current" and isinstance(call_arg(c, 0, "key"), ast.Constant) and call_arg(c, 0, "key").value == "iter" for c in ast.walk(rx0)):
                                fb = True
                    if fb:
                        continue
                if on_resume:
                    leaves, _ = expr_leaves(fi.node, d.value, d.node) if d.value is not None else (set(), set())
                    rx = ExprResolver(fi.node).resolve(d.value, d.node)
                    reads_iter = any(isinstance(c, ast.Call) and isinstance(c.func, ast.Attribute) and c.func.attr == "get_current"
                                     and isinstance(call_arg(c, 0, "key"), ast.Constant) and call_arg(c, 0, "key").value == "iter" for c in ast.walk(rx))
                    detail.append((unparse(d.value), reads_iter))
                    ok_all = ok_all and reads_iter
            R.check("C08.e", "t0 on the resume path is the restored iteration counter", ok_all and bool(detail), fi, call,
                    msg=f"{fi.short}: t0 handed to the iteration does not come from the restored 'iter' on the resume path ({detail})",
                    key=f"t0:{fi.short}")
    R.analysed["C08.e:schedule_key_writes_on_load_path"] = n_w


def _derives_from_key(fi: FuncInfo, acc, n) -> bool:
    rx = ExprResolver(fi.node).resolve(acc.value, n)
    for c in ast.walk(rx):
        if isinstance(c, ast.Call) and isinstance(c.func, ast.Attribute) and c.func.attr == "get_current":
            k = call_arg(c, 0, "key")
            if isinstance(k, ast.Constant) and k.value == acc.key:
                return True
    return False


# ------------------------------------------------------------------ C08.f
def rule_f(ctx: Context, R: Reporter):
    dump_funcs = {fi.qualname for (fi, _, _) in dumpers(ctx)} | {fi.qualname for (fi, _) in blob_writers(ctx)}
    sc = state_class(ctx)
    n_sites = 0
    for fi in ctx.prog.functions.values():
        if fi.cls is sc or fi.qualname in dump_funcs:
            continue
        if "save_every" not in fi.params:
            continue
        sites = nodes_calling(ctx.cg, fi, lambda g: g.qualname in dump_funcs, transitive=False)
        cfg = cfg_of(fi.node)
        flow = flow_of(fi.node)
        for (n, call, hit) in sites:
            n_sites += 1
            conds = conds_holding_at(cfg, n)
            set_guard = any(is_none_test(t) is not None and "save_every" in names_of(t) and ((is_none_test(t)[1] is False and pol) or (is_none_test(t)[1] and not pol)) for (t, pol) in conds)
            R.check("C08.f", "save is guarded by `save_every is not None`", set_guard, fi, call,
                    msg=f"{fi.short}: checkpoint save not guarded by save_every", key=f"guard:{fi.short}")
            in_loop_driver = any(x.kind == "test" and isinstance(x.stmt, ast.While) for x in cfg.stmt_nodes())
            if in_loop_driver:
                heads = [x for x in cfg.stmt_nodes() if x.kind == "test" and isinstance(x.stmt, ast.While)]
                after = all(cfg.reaches(h.id, n.id) and not n.loops for h in heads)
                R.check("C08.f", "final save follows the sampling loop", after, fi, call,
                        msg=f"{fi.short}: the final checkpoint is not written after the loop", key=f"final:{fi.short}")
            else:
                # periodic: some dominating condition has the cadence shape (iter - t0) % save_every == 0
                ok = False
                for (t, pol) in conds:
                    if not pol:
                        continue
                    rt = ExprResolver(fi.node).resolve(t, n)
                    for c in ast.walk(rt):
                        if isinstance(c, ast.Compare) and len(c.ops) == 1 and isinstance(c.ops[0], ast.Eq) and isinstance(c.left, ast.BinOp) and isinstance(c.left.op, ast.Mod):
                            if isinstance(c.comparators[0], ast.Constant) and c.comparators[0].value == 0:
                                lhs, rhs = c.left.left, c.left.right
                                reads_iter = any(isinstance(x, ast.Call) and isinstance(x.func, ast.Attribute) and x.func.attr == "get_current" and isinstance(call_arg(x, 0, "key"), ast.Constant)
                                                 and call_arg(x, 0, "key").value == "iter" for x in ast.walk(lhs))
                                if reads_iter and "t0" in names_of(lhs) and isinstance(lhs, ast.BinOp) and isinstance(lhs.op, ast.Sub) and "save_every" in names_of(rhs):
                                    ok = True
                R.check("C08.f", "periodic save fires when (iter - t0) % save_every == 0", ok, fi, call,
                        msg=f"{fi.short}: periodic checkpoint condition is not `(iter - t0) % save_every == 0`", key=f"cadence:{fi.short}")
                # a periodic checkpoint holds whole iterations: it is never written between the step that advances the
                # iteration counter and the commit of that iteration to the history
                adv = [x for x in cfg.stmt_nodes() for c2 in calls_in_node(x) for t2 in ctx.res.call_targets(fi, c2)
                       if isinstance(t2, FuncInfo) and "iter" in ctx.state.transitive_writes(ctx.cg, t2) and t2.cls is not sc]
                com = [x for x in cfg.stmt_nodes() for c2 in calls_in_node(x) for t2 in ctx.res.call_targets(fi, c2)
                       if isinstance(t2, FuncInfo) and t2.cls is sc and any(isinstance(y, ast.Call) and isinstance(y.func, ast.Attribute) and y.func.attr == "append" and "_history" in norm_text(y.func.value) for y in ast.walk(t2.node))]
                if adv and com:
                    between = any(cfg.reaches(a_.id, n.id) and a_.id != n.id for a_ in adv) and any(cfg.reaches(n.id, c_.id) and c_.id != n.id for c_ in com) \
                        and not any(cfg.reaches(c_.id, n.id) for c_ in com)
                    R.check("C08.f", "a periodic checkpoint is not written between the advance of the iteration counter and the commit", not between, fi, call,
                            msg=f"{fi.short}: `{unparse(call)[:50]}` runs after the iteration counter has advanced but before the iteration is committed: the file carries iter = k with "
                                f"k-1 committed batches, and a run resumed from it never records iteration k", key=f"save-inside-iteration:{fi.short}")
    R.floor("C08.f", "save call sites wired to save_every", n_sites, 2)


def rule_j(ctx: Context, R: Reporter):
    """C08.j  saving works for any output location: the writer reachable from a run
    creates the checkpoint's parent directory with parents=True, exist_ok=True."""
    sc = state_class(ctx)
    n = 0
    for (fi, dump, nm) in dumpers(ctx):
        if fi.cls is sc:
            continue  # the state manager's own save_state is not used by runs
        mk = [c for c in calls_in(fi.node) if isinstance(c.func, ast.Attribute) and c.func.attr == "mkdir"] + \
             [c for c in calls_in(fi.node) if (ctx.res.external_name(fi, c) or "") in ("os.makedirs", "os.mkdir")]
        n += 1
        if not mk:
            R.check("C08.j", f"{fi.short} creates the checkpoint directory", False, fi, dump,
                    msg=f"{fi.short}: the checkpoint's parent directory is never created: the first save into a new output_dir raises FileNotFoundError", key=f"mkdir:{fi.short}")
            continue
        for c in mk:
            en = ctx.res.external_name(fi, c) or ""
            if en == "os.mkdir":
                ok = False
            elif en == "os.makedirs":
                ok = any(k.arg == "exist_ok" and const_value(k.value) is True for k in c.keywords)
            else:
                ok = any(k.arg == "parents" and const_value(k.value) is True for k in c.keywords) and any(k.arg == "exist_ok" and const_value(k.value) is True for k in c.keywords)
            R.check("C08.j", f"{fi.short} creates the checkpoint directory with all missing levels", ok, fi, c,
                    msg=f"{fi.short}: `{unparse(c)[:60]}` creates one directory level only (or fails if it exists): with a nested output_dir such as 'project/run_001' the first "
                        f"periodic or final checkpoint raises and aborts the run", key=f"mkdir:{fi.short}")
    R.floor("C08.j", "run-time checkpoint writers", n, 1)


def rule_k(ctx: Context, R: Reporter):
    """C08.k  the rename that publishes a checkpoint under its final name runs only after the write succeeded: no
    os.replace / os.rename / shutil.move (or Path.replace / rename of a temporary) sits in a `finally:` block, in an
    exception handler, or in an `__exit__` that does not test its exception argument.  Otherwise a save aborted by an
    exception (KeyboardInterrupt, SystemExit from a signal handler, an I/O error) renames the partial temporary over
    the previous good checkpoint."""
    n = 0
    for fi in ctx.prog.functions.values():
        parents = {}
        for p_ in ast.walk(fi.node):
            for c_ in ast.iter_child_nodes(p_):
                parents[id(c_)] = p_
        for c in calls_in(fi.node):
            en = ctx.res.external_name(fi, c) or ""
            is_rename = en in ("os.replace", "os.rename", "os.renames", "shutil.move") or (
                isinstance(c.func, ast.Attribute) and c.func.attr in ("replace", "rename") and len(c.args) == 1 and any(t in norm_text(c.func.value).lower() for t in ("temp", "tmp")))
            if not is_rename:
                continue
            n += 1
            why = None
            x = c
            child = c
            while id(x) in parents:
                child, x = x, parents[id(x)]
                if isinstance(x, ast.Try) and any(child is y for y in x.finalbody):
                    why = "a `finally:` block (runs on the exceptional exit too)"
                    break
                if isinstance(x, ast.ExceptHandler):
                    why = "an exception handler"
                    break
                if x is fi.node:
                    break
            if why is None and fi.name == "__exit__":
                exc = [p for p in fi.params if p != "self"]
                flow = flow_of(fi.node)
                at = flow.node_containing(c)
                guarded = False
                for (t, pol) in (conds_holding_at(flow.cfg, at) if at is not None else []):
                    for (a, p) in split_cond(t, pol):
                        nt = is_none_test(a)
                        if nt is not None and isinstance(nt[0], ast.Name) and nt[0].id in exc and (nt[1] is True) == p:
                            guarded = True
                if not guarded:
                    why = "`__exit__`, which also runs when the block raised, without testing its exception argument"
            R.check("C08.k", "the publishing rename runs only after a successful write", why is None, fi, c,
                    msg=f"{fi.short}: `{unparse(c)[:60]}` is in {why}: a save interrupted by an exception renames the partially written temporary over the checkpoint's final name "
                        f"and destroys the previous good checkpoint", key=f"rename-on-error:{fi.short}")
    R.floor("C08.k", "renames that publish a file", n, 2)


def rule_l(ctx: Context, R: Reporter):
    """C08.l  nothing that is written to or read from a checkpoint is laid out in the iteration order of a set of
    strings: `tuple(S)`, `list(S)`, `enumerate(S)`, `zip(.., S)` with S a set / frozenset of key names (or a set
    expression over such constants) has an order that depends on the interpreter's string-hash seed, which differs
    between the process that writes a checkpoint and the one that resumes it.  Iterating such a set to fill a dict by
    key, membership tests and sorted(S) are order-free and not reported."""
    n_sets = 0
    str_sets: Dict[Tuple[str, str], bool] = {}

    def is_str_set(mod, e, depth=0) -> bool:
        if depth > 6 or e is None:
            return False
        if isinstance(e, ast.Set):
            return bool(e.elts) and all(isinstance(x, ast.Constant) and isinstance(x.value, str) for x in e.elts)
        if isinstance(e, ast.Call) and dotted(e.func) in ("frozenset", "set") and len(e.args) == 1:
            a = e.args[0]
            if isinstance(a, (ast.Set, ast.List, ast.Tuple)):
                return bool(a.elts) and all(isinstance(x, ast.Constant) and isinstance(x.value, str) for x in a.elts)
            return is_str_set(mod, a, depth + 1)
        if isinstance(e, ast.BinOp) and isinstance(e.op, (ast.Sub, ast.BitOr, ast.BitAnd, ast.BitXor)):
            return is_str_set(mod, e.left, depth + 1) or is_str_set(mod, e.right, depth + 1) if isinstance(e.op, ast.BitOr) else is_str_set(mod, e.left, depth + 1)
        if isinstance(e, ast.Call) and isinstance(e.func, ast.Attribute) and e.func.attr in ("union", "difference", "intersection", "symmetric_difference", "copy"):
            return is_str_set(mod, e.func.value, depth + 1)
        if isinstance(e, ast.Name):
            v = mod.constants.get(e.id)
            if v is not None:
                return is_str_set(mod, v, depth + 1)
            src = mod.imports.get(e.id)
            if src:
                parts = src.rsplit(".", 1)
                m2 = ctx.prog.modules.get(parts[0]) if len(parts) == 2 else None
                if m2 is not None and parts[1] in m2.constants:
                    return is_str_set(m2, m2.constants[parts[1]], depth + 1)
        return False

    def scan(mod, root, fi):
        nonlocal n_sets
        for c in ast.walk(root):
            if not isinstance(c, ast.Call):
                continue
            nm = dotted(c.func)
            ordered_of = None
            if nm in ("tuple", "list", "enumerate", "np.array", "numpy.array", "np.asarray", "iter", "next") and c.args and is_str_set(mod, c.args[0]):
                ordered_of = c.args[0]
            elif nm == "zip" and any(is_str_set(mod, a) for a in c.args):
                ordered_of = next(a for a in c.args if is_str_set(mod, a))
            if ordered_of is None:
                continue
            R.check("C08.l", "no positional layout is derived from the iteration order of a set of key names", False, fi, c,
                    msg=f"{mod.relpath}:{c.lineno}: `{unparse(c)[:60]}` fixes an order of the string set `{unparse(ordered_of)[:40]}`: that order depends on the interpreter's hash seed, so a "
                        f"checkpoint (or any table) laid out by it in one process is read back with its columns / positions assigned to other keys in the next process",
                    key=f"set-order-layout:{norm_text(c)[:50]}", loc=f"{mod.relpath}:{c.lineno}")

    for m in ctx.prog.modules.values():
        for nm_, v in m.constants.items():
            if is_str_set(m, v):
                n_sets += 1
        # module level statements
        for st in m.tree.body:
            if not isinstance(st, (ast.FunctionDef, ast.AsyncFunctionDef, ast.ClassDef)):
                scan(m, st, None)
    for fi in ctx.prog.functions.values():
        scan(fi.module, fi.node, fi)
    R.check("C08.l", "module constants and functions scanned for set-order layouts", True, None, None, key="set-order-scan")
    R.floor("C08.l", "sets of key names defined at module level", n_sets, 3)


def rule_m(ctx: Context, R: Reporter):
    """C08.m  the import of a serialized state copies the values it is given and nothing else: inside the state class's
    import methods (and the helpers of the class they hand the values to) no shape-, dtype- or value-changing operation
    is applied to the imported data (`squeeze`, `ravel`, `reshape`, `astype`, `round`, `item`, `atleast_*`, a dtype=
    cast ...).  `np.squeeze` looks harmless for "array-wrapped scalars" but also drops the parameter axis of the
    particle arrays of a one-dimensional problem: the restored state is no longer what was saved."""
    CHANGERS = {"squeeze", "ravel", "flatten", "reshape", "astype", "round", "around", "rint", "item", "tolist", "atleast_1d", "atleast_2d", "atleast_3d", "transpose", "swapaxes",
                "clip", "nan_to_num", "sort", "unique", "float32", "float16", "int32", "int64", "int"}
    sc = state_class(ctx)
    roots = list(mutating_imports(ctx).values()) + [m for m in sc.methods.values() if m.is_classmethod and any(p in m.params for p in ("state_dict", "d", "data"))]
    seen = set()
    todo = [(m, {p for p in m.params if p not in ("self", "cls", "copy")}) for m in roots]
    n = 0
    while todo:
        m, tainted0 = todo.pop()
        if (m.qualname, tuple(sorted(tainted0))) in seen:
            continue
        seen.add((m.qualname, tuple(sorted(tainted0))))
        n += 1
        tainted = set(tainted0)
        nodes = list(walk_no_nested(m.node))
        for _ in range(6):
            before = len(tainted)
            for x in nodes:
                tg, v = None, None
                if isinstance(x, ast.Assign):
                    tg, v = x.targets, x.value
                elif isinstance(x, (ast.For, ast.comprehension)):
                    tg, v = [x.target], x.iter
                if tg is not None and any(isinstance(y, ast.Name) and y.id in tainted for y in ast.walk(v)):
                    for t in tg:
                        for y in ast.walk(t):
                            if isinstance(y, ast.Name) and isinstance(y.ctx, ast.Store):
                                tainted.add(y.id)
            if len(tainted) == before:
                break
        for c in calls_in(m.node):
            nm = dotted(c.func).split(".")[-1]
            operands = list(c.args) + ([c.func.value] if isinstance(c.func, ast.Attribute) else [])
            touches = any(isinstance(y, ast.Name) and y.id in tainted for a in operands for y in ast.walk(a))
            if not touches:
                continue
            cast = any(k.arg == "dtype" for k in c.keywords) and nm in ("array", "asarray", "asanyarray")
            if nm in CHANGERS or cast:
                R.check("C08.m", "imported values are copied, not converted", False, m, c,
                        msg=f"{m.short}: `{unparse(c)[:60]}` changes the shape / dtype / value of data imported from a serialized state: the restored state differs from the saved one "
                            f"(np.squeeze, for one, drops the parameter axis of u and x when n_dim = 1, and resuming from such a state fails or mis-shapes every later batch)",
                        key=f"import-converted:{m.short}:{nm}")
            # follow the imported values into helpers of the class
            for t in ctx.res.call_targets(m, c):
                if isinstance(t, FuncInfo) and t.cls is sc and t is not m:
                    ps = [p for p in t.params if p not in ("self", "cls")]
                    tp = {ps[i] for i, a in enumerate(c.args) if i < len(ps) and any(isinstance(y, ast.Name) and y.id in tainted for y in ast.walk(a))}
                    tp |= {k.arg for k in c.keywords if k.arg in ps and any(isinstance(y, ast.Name) and y.id in tainted for y in ast.walk(k.value))}
                    if tp:
                        todo.append((t, tp))
    R.check("C08.m", "import path of the state class scanned for conversions", True, None, None, key="import-converted-scan")
    R.floor("C08.m", "import methods / helpers scanned", n, 2)


def rule_g(ctx: Context, R: Reporter):
    """The object pickled into the checkpoint is the live object itself under a
    pool-less configuration swap (restored afterwards); never a shallow copy,
    whose collaborators still hold bound methods of the original object and,
    through it, the pool."""
    n = 0
    for fi in ctx.prog.functions.values():
        if fi.cls is None:
            continue
        flow = flow_of(fi.node)
        cfg = flow.cfg
        for nd in cfg.stmt_nodes():
            for c in calls_in_node(nd):
                if (ctx.res.external_name(fi, c) or "") not in ("dill.dumps", "pickle.dumps") or not c.args:
                    continue
                root = c.args[0]
                rts = ctx.res.expr_types(fi, root)
                derived = isinstance(root, ast.Name) and any(d.value is not None and any(isinstance(x, ast.Name) and x.id == "self" for x in ast.walk(d.value)) for d in flow.reaching(nd, root.id))
                if fi.cls not in rts and not (isinstance(root, ast.Name) and root.id == "self") and not derived:
                    continue
                n += 1
                facts = conds_holding_at(cfg, nd)
                pool_branch = any("pool" in norm_text(t) and is_none_test(t) is not None and ((is_none_test(t)[1] is False) == pol) for (t, pol) in facts)
                is_self = isinstance(root, ast.Name) and root.id == "self"
                R.check("C08.g", "the pickled root is the live object, not a copy of it", is_self, fi, c,
                        msg=f"{fi.short}: `{unparse(c)}` pickles `{unparse(root)}`, a copy: the copy's step objects still reference the original (e.g. a bound likelihood wrapper), "
                            f"whose configuration keeps the pool, so saving with a live pool object fails to pickle", key=f"pickled-root:{norm_text(root)}")
                if pool_branch and is_self:
                    # a dominating `self.config = <replace(..., pool=None)>` and a restoring assignment in a finally block
                    swaps = [m for m in cfg.stmt_nodes() if m.kind == "stmt" and isinstance(m.stmt, ast.Assign) and any(norm_text(t) == "self.config" for t in m.stmt.targets)]
                    detach = [m for m in swaps if cfg.dominates(m.id, nd.id) and any(isinstance(x, ast.keyword) and x.arg == "pool" and const_is_none(x.value) for x in ast.walk(m.stmt.value))]
                    restore = [m for m in swaps if m not in detach and cfg.reaches(nd.id, m.id)]
                    in_finally = any(isinstance(t, ast.Try) and t.finalbody and any(r.stmt in ast.walk(ast.Module(body=t.finalbody, type_ignores=[])) for r in restore) for t in ast.walk(fi.node))
                    R.check("C08.g", "with a pool configured, the object is pickled under a pool-less configuration that is restored in a finally block", bool(detach) and bool(restore) and in_finally, fi, c,
                            msg=f"{fi.short}: pool branch pickles `self` without swapping in a pool-less configuration (detach: {len(detach)}, restore: {len(restore)}, in finally: {in_finally})", key="pool-detached-while-pickling")
    R.floor("C08.g", "pickles of the sampler object", n, 1)


UNPICKLABLE_CTORS = ("Pool", "ThreadPool", "ProcessPoolExecutor", "ThreadPoolExecutor", "Lock", "RLock", "Semaphore", "open", "socket")


def rule_h(ctx: Context, R: Reporter):
    """No attribute of an object that is pickled into the checkpoint holds a
    process pool, executor, lock or open file."""
    roots = set()
    for fi in ctx.prog.functions.values():
        for c in calls_in(fi.node):
            if (ctx.res.external_name(fi, c) or "") in ("dill.dumps", "pickle.dumps") and c.args and isinstance(c.args[0], ast.Name) and c.args[0].id == "self" and fi.cls is not None:
                roots.add(fi.cls.qualname)
    if not roots:
        raise AnalysisError("C08.h: no pickled object found")
    # classes reachable through attributes of the roots
    classes = set(roots)
    todo = list(roots)
    while todo:
        q = todo.pop()
        ci = ctx.prog.classes[q]
        for (k, attr), lst in ctx.res._attr_values.items():
            if k != q:
                continue
            for t in ctx.res.attr_type(ci, attr):
                if isinstance(t, ClassInfo) and t.qualname not in classes:
                    classes.add(t.qualname)
                    todo.append(t.qualname)
    n = 0
    for q in sorted(classes):
        ci = ctx.prog.classes[q]
        for m in ci.methods.values():
            flow = flow_of(m.node)
            for node in walk_no_nested(m.node):
                if isinstance(node, ast.Assign) and any(isinstance(t, ast.Attribute) and isinstance(t.value, ast.Name) and t.value.id == "self" for t in node.targets):
                    n += 1
                    v = node.value
                    cands = [v]
                    if isinstance(v, ast.Name):
                        at = flow.node_containing(node)
                        cands += [d.value for d in (flow.reaching(at, v.id) if at is not None else []) if d.value is not None]
                    for cv in cands:
                        if isinstance(cv, ast.Call) and dotted(cv.func).split(".")[-1] in UNPICKLABLE_CTORS:
                            R.check("C08.h", "no pool / lock / open file is stored on an object that is pickled into checkpoints", False, m, node,
                                    msg=f"{m.short}: `{unparse(node)[:70]}` keeps a `{dotted(cv.func)}` on {ci.name}, which save_state pickles: with this option combined with "
                                        f"save_every (or save_state) the checkpoint fails with 'pool objects cannot be passed between processes or pickled'", key=f"unpicklable-attr:{ci.name}.{norm_text(node.targets[0])}")
    R.analysed["C08.h:classes"] = sorted(c.split(":")[1] for c in classes)
    R.check("C08.h", f"scanned {n} attribute assignments of {len(classes)} classes reachable from the pickled object", True, None, None, key="scan", loc="tempest/")


# ------------------------------------------------------------------ C08.i
def _keys_of_store(fi: FuncInfo, k: ast.expr) -> Optional[Set[str]]:
    """Constant string keys a store `d[k] = ...` / `d.pop(k)` can address: a
    literal, or a loop variable ranging over a literal tuple/list of strings, or
    over a caller-supplied parameter (the caller's explicit choice; its literal
    default is included).  None = computed."""
    if isinstance(k, ast.Constant):
        return {k.value} if isinstance(k.value, str) else set()
    if isinstance(k, ast.Name):
        for n in walk_no_nested(fi.node):
            if isinstance(n, (ast.For, ast.comprehension)) and isinstance(n.target, ast.Name) and n.target.id == k.id:
                def sources(it, depth=0):
                    """Literal collections that the iterated value can be (caller-supplied parameters contribute
                    their literal default and nothing else: the caller's explicit choice is not the library's)."""
                    if depth > 6:
                        return None
                    if isinstance(it, (ast.Tuple, ast.List, ast.Set)):
                        return [it]
                    if isinstance(it, ast.Constant) and it.value is None:
                        return []
                    if isinstance(it, ast.IfExp):
                        a, b = sources(it.body, depth + 1), sources(it.orelse, depth + 1)
                        return None if a is None or b is None else a + b
                    if isinstance(it, ast.BoolOp) and isinstance(it.op, ast.Or):
                        parts = [sources(v, depth + 1) for v in it.values]
                        return None if any(x is None for x in parts) else [y for x in parts for y in x]
                    if isinstance(it, ast.Call) and dotted(it.func) in ("list", "tuple", "set", "sorted") and len(it.args) == 1:
                        return sources(it.args[0], depth + 1)
                    if isinstance(it, ast.Name):
                        if it.id in fi.module.constants:
                            return sources(fi.module.constants[it.id], depth + 1)
                        outl = []
                        assigns = [a.value for a in walk_no_nested(fi.node) if isinstance(a, ast.Assign) and len(a.targets) == 1 and isinstance(a.targets[0], ast.Name) and a.targets[0].id == it.id]
                        if it.id in fi.params:
                            dflt = fi.param_default(it.id)
                            if dflt is not None:
                                r0 = sources(dflt, depth + 1)
                                if r0 is None:
                                    return None
                                outl += r0
                        elif not assigns:
                            return None
                        for v in assigns:
                            r0 = sources(v, depth + 1)
                            if r0 is None:
                                return None
                            outl += r0
                        return outl
                    return None

                its = sources(n.iter)
                if its is None:
                    return None
                out: Set[str] = set()
                for it in its:
                    if all(isinstance(e, ast.Constant) and isinstance(e.value, str) for e in it.elts):
                        out |= {e.value for e in it.elts}
                    else:
                        return None
                return out
    return None


def rule_i(ctx: Context, R: Reporter):
    """The exported state sections reach the file, and the imported ones reach
    the state object, untouched: neither the checkpoint writer nor the loader
    re-binds (`d['_history'] = f(...)`), deletes or pops a section exported by the
    state class. A conversion on the way (dtype cast, rounding, compression,
    sub-selection) makes the restored state differ from the saved one."""
    exp, dlit = exporter(ctx)
    exported = {k.value for k in dlit.keys if isinstance(k, ast.Constant)}
    imports = mutating_imports(ctx)
    n = 0
    sites = []
    for (fi, dump, nm) in dumpers(ctx):
        obj = call_arg(dump, 0, "obj")
        if isinstance(obj, ast.Name):
            sites.append((fi, obj.id, "writer"))
    for (fi, call, nm) in loaders(ctx):
        flow = flow_of(fi.node)
        ln = flow.node_containing(call)
        for d in flow.defs_at.get(ln.id, []):
            sites.append((fi, d.name, "loader"))
    R.floor("C08.i", "checkpoint writer / loader payload variables", len(sites), 2)
    # the payload handed on to a helper of the library (`self._upgrade(d)`) is the payload there too
    k_ = 0
    while k_ < len(sites) and k_ < 12:
        (fi0, var0, role0) = sites[k_]
        k_ += 1
        for c in calls_in(fi0.node):
            tg = [t for t in ctx.res.call_targets(fi0, c) if isinstance(t, FuncInfo) and t not in imports.values() and t is not exp]
            for t in tg:
                ps = [p for p in t.params if p not in ("self", "cls")]
                for i_, a_ in enumerate(c.args):
                    if isinstance(a_, ast.Name) and a_.id == var0 and i_ < len(ps) and (t, ps[i_], role0) not in sites and t.cls is not state_class(ctx):
                        sites.append((t, ps[i_], role0))
    for (fi, var, role) in sites:
        n += 1
        bad = []
        # local names bound to an exported section of the payload (`history = d.get("_history")`, `h = d["_history"]`)
        section_alias = {}
        for x in walk_no_nested(fi.node):
            if isinstance(x, ast.Assign) and len(x.targets) == 1 and isinstance(x.targets[0], ast.Name):
                v_ = x.value
                key_ = None
                if isinstance(v_, ast.Subscript) and isinstance(v_.value, ast.Name) and v_.value.id == var:
                    key_ = v_.slice
                elif isinstance(v_, ast.Call) and isinstance(v_.func, ast.Attribute) and v_.func.attr == "get" and isinstance(v_.func.value, ast.Name) and v_.func.value.id == var and v_.args:
                    key_ = v_.args[0]
                if key_ is not None:
                    ks = _keys_of_store(fi, key_)
                    if ks is None or ks & exported:
                        section_alias[x.targets[0].id] = sorted(ks & exported) if ks else "(computed)"
        for x in walk_no_nested(fi.node):
            if section_alias and isinstance(x, ast.Subscript) and isinstance(x.ctx, (ast.Store, ast.Del)):
                b = x
                while isinstance(b, ast.Subscript):
                    b = b.value
                if isinstance(b, ast.Name) and b.id in section_alias:
                    bad.append((x, f"an entry of section {section_alias[b.id]} (through the local `{b.id}`)"))
            if section_alias and isinstance(x, ast.Call) and isinstance(x.func, ast.Attribute) and x.func.attr in ("pop", "update", "clear", "popitem", "setdefault") \
                    and isinstance(x.func.value, ast.Name) and x.func.value.id in section_alias:
                bad.append((x, f"section {section_alias[x.func.value.id]} through .{x.func.attr}()"))
        for x in walk_no_nested(fi.node):
            if isinstance(x, ast.Subscript) and isinstance(x.value, ast.Name) and x.value.id == var and isinstance(x.ctx, (ast.Store, ast.Del)):
                ks = _keys_of_store(fi, x.slice)
                if ks is None or ks & exported:
                    bad.append((x, sorted(ks & exported) if ks else "a computed key"))
            # stores *inside* an exported section: payload["_history"][key] = ..., payload["_current"]["u"][...] = ...
            if isinstance(x, ast.Subscript) and isinstance(x.ctx, (ast.Store, ast.Del)) and isinstance(x.value, ast.Subscript):
                b = x.value
                while isinstance(b.value, ast.Subscript):
                    b = b.value
                if isinstance(b.value, ast.Name) and b.value.id == var:
                    ks = _keys_of_store(fi, b.slice)
                    if ks is None or ks & exported:
                        bad.append((x, f"an entry of section {sorted(ks & exported) if ks else '(computed)'}"))
            if isinstance(x, ast.Call) and isinstance(x.func, ast.Attribute) and x.func.attr in ("pop", "update", "clear", "popitem", "setdefault", "append", "extend", "insert", "sort") \
                    and isinstance(x.func.value, ast.Subscript):
                b = x.func.value
                while isinstance(b.value, ast.Subscript):
                    b = b.value
                if isinstance(b.value, ast.Name) and b.value.id == var:
                    ks = _keys_of_store(fi, b.slice)
                    if ks is None or ks & exported:
                        bad.append((x, f"section {sorted(ks & exported) if ks else '(computed)'} through .{x.func.attr}()"))
            if isinstance(x, ast.Call) and isinstance(x.func, ast.Attribute) and isinstance(x.func.value, ast.Name) and x.func.value.id == var and x.func.attr in ("pop", "update", "clear", "popitem", "setdefault"):
                a0 = x.args[0] if x.args else None
                if x.func.attr in ("pop", "setdefault") and a0 is not None:
                    ks = _keys_of_store(fi, a0)
                    if ks is not None and not (ks & exported):
                        continue
                if x.func.attr == "update" and isinstance(a0, ast.Dict) and all(isinstance(k, ast.Constant) and k.value not in exported for k in a0.keys):
                    continue
                if x.func.attr == "update" and not x.args and all(k.arg is not None and k.arg not in exported for k in x.keywords):
                    continue
                bad.append((x, f".{x.func.attr}()"))
        # the payload itself must be the exporter's result / the loaded object, not a transformed copy
        flow = flow_of(fi.node)
        for ds_ in flow.defs_at.values():
            for d in ds_:
                if d.name != var or d.kind != "assign" or d.value is None:
                    continue
                v = d.value
                if role == "writer":
                    okv = isinstance(v, ast.Dict) or (isinstance(v, ast.Call) and exp in ctx.res.call_targets(fi, v))
                else:
                    okv = isinstance(v, ast.Call) and (ctx.res.external_name(fi, v) or "") in ("dill.load", "pickle.load", "dill.loads", "pickle.loads")
                if not okv:
                    bad.append((v, "re-bound payload"))
        R.check("C08.i", f"{fi.short}: exported state sections pass through the checkpoint {role} untouched", not bad, fi, bad[0][0] if bad else fi.node,
                msg=f"{fi.short}: `{unparse(bad[0][0])[:70] if bad else ''}` rewrites {bad[0][1] if bad else ''} of the checkpoint payload `{var}` between the state object and the file: "
                    f"what is restored is no longer exactly what was saved (lossy casts / filtered history)", key=f"payload-untouched:{role}:{fi.short}")
    # ... and the payload handed to the in-place import is that variable itself
    for (fi, call, nm) in loaders(ctx):
        flow = flow_of(fi.node)
        ln = flow.node_containing(call)
        names = {d.name for d in flow.defs_at.get(ln.id, [])}
        for c in calls_in(fi.node):
            tg = [t for t in ctx.res.call_targets(fi, c) if isinstance(t, FuncInfo)]
            if any(t in imports.values() for t in tg):
                a0 = call_arg(c, 0, "state_dict")
                ok = isinstance(a0, ast.Name) and a0.id in names
                R.check("C08.i", f"{fi.short}: the in-place import receives the loaded object itself", ok, fi, c,
                        msg=f"{fi.short}: `{unparse(c)[:70]}` imports `{unparse(a0) if a0 is not None else '?'}`, not the object read from the file", key=f"import-arg:{fi.short}")


def const_is_none(e) -> bool:
    return isinstance(e, ast.Constant) and e.value is None


def run(ctx: Context, R: Reporter):
    R.guard(rule_a, ctx, R)
    R.guard(rule_b, ctx, R)
    R.guard(rule_c, ctx, R)
    R.guard(rule_g, ctx, R)
    R.guard(rule_h, ctx, R)
    R.guard(rule_d, ctx, R)
    R.guard(rule_e, ctx, R)
    R.guard(rule_f, ctx, R)
    R.guard(rule_i, ctx, R)
    R.guard(rule_j, ctx, R)
    R.guard(rule_k, ctx, R)
    R.guard(rule_l, ctx, R)
    R.guard(rule_m, ctx, R)


def variants():
    from ..variants import Variant, chain, alpha_rename, delete_stmt, edit, insert_after, insert_before, insert_before_function, invert_if, replace_expr, replace_stmt

    core = "tempest/core.py"
    sm = "tempest/state_manager.py"
    return [
        Variant("c-temp-opened-exclusively", "bad", replace_expr(core, "SamplerCore.save_sampler_state", "open(temp_path, 'wb')", "open(temp_path, 'xb')"), ["C08.c"], quick=True),
        Variant("c-temp-opened-for-append", "bad", replace_expr(sm, "StateManager.save_state", "open(temp_path, 'wb')", "open(temp_path, 'ab')"), ["C08.c"]),
        Variant("c-latest-copy-next-to-numbered", "bad", chain(insert_before_function(core, "SamplerCore", "import shutil\n"),
                                                              insert_after(core, "SamplerCore.execute_iteration", "self.save_sampler_state(self.config.output_dir / f'{self.config.output_label}_{iter_val}.state')",
                                                                           "shutil.copyfile(self.config.output_dir / f'{self.config.output_label}_{iter_val}.state', self.config.output_dir / f'{self.config.output_label}_latest.state')")), ["C08.c"], quick=True),
        Variant("c-checkpoint-name-with-suffix", "bad", replace_expr(core, "SamplerCore.execute_iteration", "self.config.output_dir / f'{self.config.output_label}_{iter_val}.state'",
                                                                      "(self.config.output_dir / f'{self.config.output_label}_{iter_val}').with_suffix('.state')"), ["C08.c"], quick=True),
        Variant("c-benign-temp-mode-w-plus-b", "benign", replace_expr(core, "SamplerCore.save_sampler_state", "open(temp_path, 'wb')", "open(temp_path, 'w+b')")),
        Variant("c-benign-name-via-local", "benign", replace_stmt(core, "SamplerCore.execute_iteration", "self.save_sampler_state(self.config.output_dir / f'{self.config.output_label}_{iter_val}.state')",
                                                                  "name = f'{self.config.output_label}_{iter_val}.state'\nself.save_sampler_state(self.config.output_dir / name)")),
        Variant("i-loader-rewrites-history-through-alias", "bad", insert_before(core, "SamplerCore.load_sampler_state", "self.state.update_from_dict(d)", "hist = d.get('_history')\nif hist and 'logz' in hist:\n    hist['logz'] = [float(v) for v in hist['logz']]"), ["C08.i"], quick=True),
        Variant("m-import-squeezes-arrays", "bad", replace_expr(sm, "StateManager.update_from_dict", "self._ensure_copy(value)", "self._ensure_copy(np.squeeze(value) if isinstance(value, np.ndarray) else value)"), ["C08.m"], quick=True),
        Variant("m-benign-import-through-local", "benign", replace_stmt(sm, "StateManager.update_from_dict", "self._current[key] = self._ensure_copy(value)", "copied = self._ensure_copy(value)\nself._current[key] = copied")),
        Variant("l-history-columns-in-set-order", "bad", chain(insert_before_function(sm, "StateManager", "SCALAR_KEYS = tuple(HISTORY_STATE_KEYS - frozenset({'u', 'x', 'logl', 'blobs'}))\n"),
                                                                 insert_after(core, "SamplerCore.save_sampler_state", "d = self.state.to_dict()", "d['_scalars'] = [d['_history'][k] for k in __import__('tempest').state_manager.SCALAR_KEYS]")), ["C08.l"], quick=True),
        Variant("l-benign-history-columns-sorted", "benign", insert_before_function(sm, "StateManager", "SCALAR_KEYS = tuple(sorted(HISTORY_STATE_KEYS - frozenset({'u', 'x', 'logl', 'blobs'})))\n")),
        Variant("k-rename-in-finally", "bad", _rename_in_finally(True), ["C08.k"], quick=True),
        Variant("k-benign-cleanup-in-finally", "benign", _rename_in_finally(False)),
        Variant("i-float32-history", "bad", insert_after(core, "SamplerCore.save_sampler_state", "d = self.state.to_dict()", "d['_history'] = {k: [np.asarray(a, dtype=np.float32) for a in v] for k, v in d['_history'].items()}"), ["C08.i"], quick=True),
        Variant("i-loader-filters", "bad", insert_before(core, "SamplerCore.load_sampler_state", "self.state.update_from_dict(d)", "for sec in ('_current', '_history'):\n    d[sec] = dict(d[sec])"), ["C08.i"]),
        Variant("i-loader-imports-copy", "bad", replace_stmt(core, "SamplerCore.load_sampler_state", "self.state.update_from_dict(d)", "self.state.update_from_dict({k: v for k, v in d.items() if k != 'n_dim'})"), ["C08.i", "C08.a", "C08.d"]),
        Variant("i-extra-metadata-benign", "benign", insert_after(core, "SamplerCore.save_sampler_state", "d = self.state.to_dict()", "d['format_version'] = 2")),
        Variant("a-discard-factory", "bad", replace_stmt(core, "SamplerCore.load_sampler_state", "self.state.update_from_dict(d)", "self.state.from_dict(d)"), ["C08.a"], quick=True),
        Variant("a-import-only-on-one-branch", "bad", replace_stmt(core, "SamplerCore.load_sampler_state", "self.state.update_from_dict(d)", "if 'n_total' in d:\n    self.state.update_from_dict(d)"), ["C08.a"]),
        Variant("b-frozen-store", "bad", insert_before(core, "SamplerCore.save_sampler_state", "d = self.state.to_dict()", "self.config.pool = None"), ["C08.b"], quick=True),
        Variant("c-drop-fsync-core", "bad", delete_stmt(core, "SamplerCore.save_sampler_state", "os.fsync(f.fileno())"), ["C08.c"], quick=True),
        Variant("c-drop-fsync-sm", "bad", delete_stmt(sm, "StateManager.save_state", "os.fsync(f.fileno())"), ["C08.c"]),
        Variant("c-drop-flush-sm", "bad", delete_stmt(sm, "StateManager.save_state", "f.flush()"), ["C08.c"]),
        Variant("c-drop-rename-sm", "bad", delete_stmt(sm, "StateManager.save_state", "os.rename(temp_path, path)"), ["C08.c"], quick=True),
        Variant("c-open-final-sm", "bad", replace_expr(sm, "StateManager.save_state", "open(temp_path, 'wb')", "open(path, 'wb')"), ["C08.c"]),
        Variant("c-fsync-before-dump", "bad", edit(sm, "StateManager.save_state", _swap_dump_fsync), ["C08.c"]),
        Variant("c-rename-reversed", "bad", replace_expr(sm, "StateManager.save_state", "os.rename(temp_path, path)", "os.rename(path, temp_path)"), ["C08.c"]),
        Variant("c-write-bytes", "bad", edit(core, "SamplerCore.save_sampler_state", _to_write_bytes), ["C08.c"], quick=True),
        Variant("g-pickle-shallow-copy", "bad", replace_stmt(core, "SamplerCore.save_sampler_state", "d['sampler'] = dill.dumps(self)", "import copy\nclone = copy.copy(self)\nd['sampler'] = dill.dumps(clone)"), ["C08.g"]),
        Variant("h-cached-pool", "bad", replace_stmt(core, "SamplerCore._get_distribute_func", "pool = Pool(self.config.pool)", "pool = Pool(self.config.pool)\nself._pool = pool"), ["C08.h"]),
        Variant("i-history-cast-in-writer", "bad", insert_before(core, "SamplerCore.save_sampler_state", "d['random_state'] = self.config.random_state", "d['_history']['u'] = [a.astype(np.float32) for a in d['_history']['u']]"), ["C08.i"], quick=True),
        Variant("d-result-attr-not-saved", "bad", chain(replace_stmt(core, "SamplerCore.run_sampling", "self.state.set_current('logz', logz)", "self.state.set_current('logz', logz)\nself.logz_final = logz"), replace_stmt(core, "SamplerCore.compute_evidence", "logz = self.state.get_current('logz')", "logz = getattr(self, 'logz_final', None) or self.state.get_current('logz')")), ["C08.d"]),
        Variant("d-export-wrong-attr", "bad", replace_expr(sm, "StateManager.to_dict", "self._history.items()", "self._current.items()"), ["C08.d"]),
        Variant("d-import-skips-history", "bad", edit(sm, "StateManager.update_from_dict", _drop_history_import), ["C08.d", "C08.a"], quick=True),
        Variant("e-reset-iter-after-load", "bad", insert_after(core, "SamplerCore.run_sampling", "self._initialize_from_resume(resume_state_path)", "self.state.set_current('calls', 0)"), ["C08.e"], quick=True),
        Variant("e-fresh-after-load", "bad", insert_after(core, "SamplerCore.run_sampling", "self._initialize_from_resume(resume_state_path)", "self._initialize_fresh()"), ["C08.e"]),
        Variant("e-unguarded-default", "bad", replace_expr(core, "SamplerCore.load_sampler_state", "self.state.get_current(key) is None", "key is not None"), ["C08.e"]),
        Variant("e-t0-zero-on-resume", "bad", replace_stmt(core, "SamplerCore.run_sampling", "t0 = int(iter_val) if iter_val is not None else 0", "t0 = 0"), ["C08.e"]),
        # t0 handed back by the loader itself: accepted when what it returns reads the restored counter, reported when it does not
        Variant("e-benign-t0-returned-by-loader", "benign", chain(
            replace_stmt(core, "SamplerCore._initialize_from_resume", "self.t0 = t0", "self.t0 = t0\nreturn self.t0"),
            replace_stmt(core, "SamplerCore.run_sampling", "t0 = int(iter_val) if iter_val is not None else 0", "t0 = self._initialize_from_resume(resume_state_path)")), quick=True),
        Variant("e-t0-returned-by-loader-is-constant", "bad", chain(
            replace_stmt(core, "SamplerCore._initialize_from_resume", "self.t0 = t0", "self.t0 = t0\nreturn 0"),
            replace_stmt(core, "SamplerCore.run_sampling", "t0 = int(iter_val) if iter_val is not None else 0", "t0 = self._initialize_from_resume(resume_state_path)")), ["C08.e"], quick=True),
        Variant("e-t0-returned-attribute-stored-from-constant", "bad", chain(
            replace_stmt(core, "SamplerCore._initialize_from_resume", "self.t0 = t0", "self.t0 = 0\nreturn self.t0"),
            replace_stmt(core, "SamplerCore.run_sampling", "t0 = int(iter_val) if iter_val is not None else 0", "t0 = self._initialize_from_resume(resume_state_path)")), ["C08.e"]),
        Variant("f-drop-final-guard", "bad", replace_expr(core, "SamplerCore.run_sampling", "save_every is not None", "save_every is None"), ["C08.f"]),
        Variant("f-cadence-no-t0", "bad", replace_expr(core, "SamplerCore.execute_iteration", "(iter_val - t0) % int(save_every) == 0", "iter_val % int(save_every) == 1"), ["C08.f"], quick=True),
        Variant("benign-rename-d", "benign", alpha_rename(core, "SamplerCore.load_sampler_state", "d", "payload"), quick=True),
        Variant("benign-rename-temp", "benign", alpha_rename(sm, "StateManager.save_state", "temp_path", "scratch"), quick=True),
        Variant("benign-invert-resume-if", "benign", invert_if(core, "SamplerCore.run_sampling", "resume_state_path is not None")),
        Variant("benign-os-replace", "benign", replace_expr(sm, "StateManager.save_state", "os.rename(temp_path, path)", "os.replace(temp_path, path)")),
    ]


def _swap_dump_fsync(node, tree):
    for w in ast.walk(node):
        if isinstance(w, ast.With):
            idx = {("dump" in ast.unparse(s), "fsync" in ast.unparse(s)): i for i, s in enumerate(w.body)}
            di = next((i for i, s in enumerate(w.body) if "dump" in ast.unparse(s)), None)
            fi = next((i for i, s in enumerate(w.body) if "fsync" in ast.unparse(s)), None)
            if di is not None and fi is not None and di < fi:
                w.body[di], w.body[fi] = w.body[fi], w.body[di]
                return True
    return False


def _drop_history_import(node, tree):
    from ..variants import replace_in_body

    return replace_in_body(node, lambda s: isinstance(s, ast.If) and "'_history'" in ast.unparse(s.test), lambda s: [])


def _to_write_bytes(node, tree):
    from ..variants import parse_stmts, replace_in_body

    return replace_in_body(node, lambda st: isinstance(st, ast.With) and "dump" in ast.unparse(st), lambda st: parse_stmts("temp_path.write_bytes(dill.dumps(d))"))


def _rename_in_finally(bad: bool):
    """the publishing rename moved into a finally block (bad) / a temp-file cleanup in the finally block (benign)"""
    from ..variants import edit, parse_stmts

    def fn(node, tree):
        body = node.body
        for i, st in enumerate(body):
            if isinstance(st, ast.With) and i + 1 < len(body) and isinstance(body[i + 1], ast.Expr) and "os.replace" in ast.unparse(body[i + 1]):
                ren = body[i + 1]
                if bad:
                    body[i:i + 2] = [ast.Try(body=[st], handlers=[], orelse=[], finalbody=[ren])]
                else:
                    cleanup = parse_stmts("if temp_path.exists():\n    temp_path.unlink()")
                    body[i:i + 2] = [ast.Try(body=[st, ren], handlers=[], orelse=[], finalbody=cleanup)]
                return True
        return False

    return edit("tempest/core.py", "SamplerCore.save_sampler_state", fn)
