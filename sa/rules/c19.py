"""C19  Student-t proposal fit is well-posed and equivariant.

  C19.a  dof fallback: every result of the Student-t fit passes the non-finite
         guard before it reaches the mode-statistics constructor; the fallback
         value is wired from the configuration constant through the training step
         into both factories (no internal call site relies on a default); the
         root-search bracket for nu is positive
  C19.b  scale typing of the fit: under data -> s * data the location has degree
         1, the scale matrix degree 2 and nu degree 0, with no arithmetic or
         clamp mixing a scaled quantity with an absolute constant
  C19.c  index-space agreement in the factories: an index drawn over range(n)
         with n = len(A) only subscripts A
  C19.i  the location and scale matrix unpacked from the fit reach the mode-statistics
         constructor through value-preserving steps only, and in the per-mode loop
         every appended entry is that iteration's own fit result
  C19.h  the location the iteration starts from -- which the fit returns unchanged
         when the first nu update lands in the Gaussian limit -- is built on a
         per-coordinate order statistic, not on a sample moment
Equivariance under per-coordinate scaling/permutation, bounding-box containment,
SPD-ness and parameter recovery are numerical and not decided.
"""
from __future__ import annotations

import ast
from fractions import Fraction
from typing import Dict, List, Optional, Tuple

from ..cfg import cfg_of
from ..dataflow import flow_of
from ..degree import INV, DegreeInterp, T, deg
from ..engine import Context, Reporter
from ..model import AnalysisError, ClassInfo, FuncInfo, dotted, norm_text, walk_no_nested
from ..provenance import Tracer
from ..util import bound_arguments, call_arg, calls_in, calls_in_node, const_value, unparse

PROP = "C19"
EXPLANATION = (
    "Decides (a) by a must-pass-through analysis that every degrees-of-freedom value produced by the Student-t fit is "
    "tested for non-finiteness before it can reach the mode-statistics constructor, that the fallback is the caller's "
    "configured value at every internal call site (provenance traced to the configuration constant) and that the nu "
    "root search uses a positive bracket; (b) by homogeneity-degree typing under uniform rescaling of the data that the "
    "fitted location, scale matrix and nu have degrees 1, 2 and 0 and that no absolute constant is added to, compared "
    "with or used to clamp a quantity that scales with the data (an absolute variance floor breaks equivariance); "
    "(c) that resampling indices drawn over a cluster-local range only subscript the cluster-local array. "
    "Per-coordinate scaling, permutation equivariance, bounding-box containment, SPD-ness and parameter recovery are "
    "numerical statements over all data sets and are not decided."
    " Also (h) the location the iteration starts from, returned unchanged in the Gaussian limit, is built on a per-coordinate order statistic, and (i) the fitted location and scale reach the constructor through value-preserving steps only, every per-mode entry being that iteration's own fit."
)
ASSUMPTIONS = ["np.cov/np.var are homogeneous of degree 2, np.median/np.mean of degree 1, np.linalg.solve(A, b) of degree deg(b) - deg(A)",
               "scipy.optimize.bisect returns a root inside its bracket"]


def fit_fn(ctx: Context) -> FuncInfo:
    cands = [f for f in ctx.prog.functions.values() if f.cls is None and f.parent is None and any((ctx.res.external_name(f, c) or "") == "numpy.linalg.solve" for c in calls_in(f.node))
             and any(isinstance(r.value, ast.Tuple) and len(r.value.elts) == 3 for r in walk_no_nested(f.node) if isinstance(r, ast.Return) and r.value is not None)]
    if len(cands) != 1:
        raise AnalysisError(f"C19: Student-t fit routine not identified ({[c.short for c in cands]})")
    return cands[0]


def rule_a(ctx: Context, R: Reporter, fit: FuncInfo):
    from .c14 import mode_class

    mc = mode_class(ctx)
    facs = [m for m in mc.methods.values() if m.is_classmethod]
    hosts = [m for m in mc.methods.values() if m.name != "__init__"]
    n_sites = 0
    R.check("C19.a", "both factories fit through the guarded Student-t call (or delegate with the fallback passed on)", len(facs) >= 2, mc.methods["__init__"], mc.node, key="factories-present")
    for m in hosts:
        flow = flow_of(m.node)
        cfg = flow.cfg
        for nd in cfg.stmt_nodes():
            if nd.kind == "stmt" and isinstance(nd.stmt, ast.Assign) and isinstance(nd.stmt.value, ast.Call) and fit in [t for t in ctx.res.call_targets(m, nd.stmt.value) if isinstance(t, FuncInfo)]:
                tgt = nd.stmt.targets[0]
                if not (isinstance(tgt, ast.Tuple) and len(tgt.elts) == 3 and isinstance(tgt.elts[2], ast.Name)):
                    raise AnalysisError(f"C19.a: {m.short}: fit result is not unpacked into (mean, covariance, dof)")
                n_sites += 1
                dof = tgt.elts[2].id
                # guard nodes: tests on isfinite(dof) (or isinf/isnan)
                guards = [g for g in cfg.stmt_nodes() if g.kind == "test" and any(isinstance(c, ast.Call) and (ctx.res.external_name(m, c) or "") in ("numpy.isfinite", "numpy.isinf", "numpy.isnan", "math.isfinite", "math.isinf")
                                                                                   and c.args and isinstance(c.args[0], ast.Name) and c.args[0].id == dof for c in ast.walk(g.ast))]
                # uses of dof that flow into the constructor: append(dof) / np.array([dof]) / cls(... dof ...)
                uses = []
                for u in cfg.stmt_nodes():
                    if u.id == nd.id or u in guards or u.ast is None:
                        continue
                    if u.kind == "stmt" and isinstance(u.stmt, ast.Assign) and isinstance(u.stmt.targets[0], ast.Name) and u.stmt.targets[0].id == dof:
                        continue
                    if any(isinstance(x, ast.Name) and x.id == dof and isinstance(x.ctx, ast.Load) for x in ast.walk(u.ast)) and any(d.node is nd for d in flow.reaching(u, dof)):
                        uses.append(u)
                ok = bool(guards) and bool(uses) and all(not cfg.reaches(nd.id, u.id, blocked=[g.id for g in guards]) for u in uses)
                R.check("C19.a", f"{m.short}: the fitted dof is tested for non-finiteness before it is used", ok, m, nd.stmt,
                        msg=f"{m.short}: `{dof}` from `{unparse(nd.stmt.value)[:40]}` reaches {[unparse(u.ast)[:40] for u in uses][:2]} without passing an isfinite test: "
                            f"nu = inf (the fit's Gaussian limit) would reach the kernel's gamma shape/scale", key=f"dof-guard:{m.name}")
                # the guarded branch assigns the fallback parameter
                fb_ok = False
                for g in guards:
                    for (branch, taken_when) in ((g.stmt.body, True), (getattr(g.stmt, "orelse", []) or [], False)):
                        for st in branch:
                            if isinstance(st, ast.Assign) and isinstance(st.targets[0], ast.Name) and st.targets[0].id == dof and isinstance(st.value, ast.Name) and st.value.id in m.params:
                                fb_param = st.value.id
                                # polarity: branch taken when NOT finite
                                t = g.ast
                                neg = isinstance(t, ast.UnaryOp) and isinstance(t.op, (ast.Invert, ast.Not))
                                inner = t.operand if neg else t
                                is_fin = isinstance(inner, ast.Call) and (ctx.res.external_name(m, inner) or "").endswith("isfinite")
                                test_true_means_nonfinite = (neg and is_fin) or ((not neg) and not is_fin)
                                fb_ok = test_true_means_nonfinite == taken_when
                R.check("C19.a", f"{m.short}: a non-finite dof is replaced by the caller's fallback parameter", fb_ok, m, guards[0].stmt if guards else nd.stmt,
                        msg=f"{m.short}: the non-finite branch does not assign the fallback parameter to `{dof}` (or has the wrong polarity)", key=f"dof-fallback-assign:{m.name}")
    R.floor("C19.a", "fit call sites in the factories", n_sites, 1)
    # wiring: every internal call of a factory passes dof_fallback, tracing to the configuration constant
    T_ = Tracer(ctx)
    n_calls = 0
    for fi in ctx.prog.functions.values():
        for (call, tg) in ctx.cg.sites.get(fi.qualname, []):
            for t in tg:
                if isinstance(t, FuncInfo) and (t in facs or (t.cls is mc and any("fallback" in p for p in t.params))):
                    n_calls += 1
                    fbp = next((p for p in t.params if "fallback" in p), None)
                    if fbp is None:
                        raise AnalysisError(f"C19.a: factory {t.short} has no fallback parameter")
                    idx = [p for p in t.params if p not in ("cls", "self")].index(fbp)
                    arg = call_arg(call, idx, fbp)
                    R.check("C19.a", f"{fi.short} passes the configured dof fallback to {t.name}", arg is not None, fi, call,
                            msg=f"{fi.short}: `{unparse(call)[:60]}` does not pass `{fbp}`: the factory silently uses its class default instead of the configured fallback", key=f"fallback-passed:{fi.short}:{t.name}")
                    if arg is not None:
                        at = flow_of(fi.node).node_containing(call)
                        origs = T_.origins(fi, arg, at)
                        lits = [o for o in origs if o.kind == "literal"]
                        vals = set()
                        for o in lits:
                            try:
                                vals.add(float(ast.literal_eval(o.detail)))
                            except Exception:
                                pass
                        okv = bool(vals) and all(v > 0 and v != float("inf") and v == v for v in vals) or any(o.kind == "user" for o in origs)
                        R.check("C19.a", f"fallback passed by {fi.short} traces to a finite positive constant", okv, fi, call,
                                msg=f"{fi.short}: fallback value origins {[repr(o) for o in origs][:3]}", key=f"fallback-origin:{fi.short}:{t.name}")
    R.floor("C19.a", "internal factory call sites", n_calls, 2)
    # positive bracket for nu
    for c in calls_in(fit.node) + [c for sub in fit.nested.values() for c in calls_in(sub.node)]:
        nm = ctx.res.external_name(fit, c) or ""
        if nm.startswith("scipy.optimize.") and len(c.args) >= 3:
            lo, hi = const_value(c.args[1]), const_value(c.args[2])
            ok = isinstance(lo, (int, float)) and isinstance(hi, (int, float)) and 0 < lo < hi
            R.check("C19.a", "the root search for nu uses a positive bracket", ok, fit, c, msg=f"{fit.short}: bracket ({unparse(c.args[1])}, {unparse(c.args[2])})", key="nu-bracket")
            # a sign change over the bracket is what bisect requires (it raises otherwise):
            #  * upper end: the enclosing guard has tested the same function at the same point (f(hi) < 0 here);
            #  * lower end: deep in the asymptotic regime of the digamma pole (-psi(nu/2) ~ 2/nu dominates every
            #    data term, which is bounded by ~ d/nu_min and a few hundred in logs), i.e. lo <= 1e-100
            host = next((sub for sub in list(fit.nested.values()) + [fit] if any(c is x for x in calls_in(sub.node))), fit)
            hflow = flow_of(host.node)
            hn = hflow.node_containing(c)
            from ..util import conds_holding_at as _cha
            from ..util import split_cond as _split

            fname = norm_text(c.args[0])
            hi_ok = False
            for (t, pol) in (_cha(hflow.cfg, hn) if hn is not None else []):
                for (atom, p) in _split(t, pol):
                    if isinstance(atom, ast.Compare) and len(atom.ops) == 1 and isinstance(atom.left, ast.Call) and norm_text(atom.left.func) == fname and atom.left.args \
                            and const_value(atom.left.args[0]) == hi and const_value(atom.comparators[0]) in (0, 0.0):
                        op = type(atom.ops[0]).__name__
                        if (op in ("GtE", "Gt") and p is False) or (op in ("Lt", "LtE") and p is True):
                            hi_ok = True
            R.check("C19.a", "the sign of the objective at the bracket's upper end is established by the enclosing guard", hi_ok, fit, c,
                    msg=f"{fit.short}: `{unparse(c)[:60]}` is not guarded by a test of `{fname}({unparse(c.args[2])})` against 0: without a sign change over the bracket the "
                        f"root finder raises instead of returning a value", key="nu-bracket-upper-sign")
            lo_ok = isinstance(lo, (int, float)) and 0 < lo <= 1e-100
            R.check("C19.a", "the bracket's lower end lies in the regime where the objective is positive for every data set", lo_ok, fit, c,
                    msg=f"{fit.short}: lower bracket end {unparse(c.args[1])}: the objective is only guaranteed positive as nu -> 0+ (digamma pole); at a moderate lower end a heavy-tailed "
                        f"or contaminated data set has its root below the bracket and the root finder raises (the fit does not return)", key="nu-bracket-lower-regime")


def rule_b(ctx: Context, R: Reporter, fit: FuncInfo):
    def internal(call):
        if isinstance(call.func, ast.Name) and call.func.id in fit.nested:
            sub = fit.nested[call.func.id]
            return (sub.node, (lambda c, sub=sub: ctx.res.external_name(sub, c)), False)
        return None

    def d2(di, e, args):
        a = args[0] if args else INV
        return deg(a.k * 2) if a.kind == "deg" else a

    def solve(di, e, args):
        if len(args) == 2 and all(a.kind == "deg" for a in args):
            return deg(args[1].k - args[0].k)
        return di._unknown("solve", e)

    def need_inv(name):
        def f(di, e, args):
            a = args[0] if args else INV
            if a.kind == "deg" and a.k == 0:
                return INV
            if a.kind == "deg":
                return di._conflict(f"{name} of a quantity that scales with the data (degree {a.k})", e)
            return a
        return f

    def root(di, e, args):
        return INV

    extra = {"numpy.cov": d2, "numpy.var": d2, "numpy.linalg.solve": solve, "scipy.special.psi": need_inv("digamma"), "scipy.special.digamma": need_inv("digamma"),
             "numpy.log": need_inv("log"), "scipy.optimize.bisect": root, "scipy.optimize.brentq": root, "numpy.std": lambda di, e, a: a[0] if a else INV}
    di = DegreeInterp(lambda c: ctx.res.external_name(fit, c), weight_params=(fit.params[0],), internal=internal, extra_degrees=extra)
    # the nested optimiser closes over dim / n (invariant) and receives delta (degree 0) -- handled by inlining
    rets = di.run(fit.node)
    want = [1, 2, 0]
    n = 0
    for (r, t) in rets:
        if t.kind != "tuple" or len(t.k) != 3:
            raise AnalysisError(f"C19.b: return `{unparse(r)[:50]}` not typed as a triple ({t!r})")
        for i, (c, w) in enumerate(zip(t.k, want)):
            n += 1
            if c.kind == "unknown":
                if di.conflicts:
                    continue
                raise AnalysisError(f"C19.b: return component {i} not typable ({c.why})")
            ok = c.kind == "deg" and c.k == w
            R.check("C19.b", f"fit result component {i} has degree {w} under rescaling of the data", ok, fit, r,
                    msg=f"{fit.short}: component {i} of `{unparse(r)[:50]}` has type {c!r}; equivariance requires degree {w}", key=f"fit-degree:{i}:{norm_text(r.value)[:30]}")
    seen = set()
    for c in di.conflicts:
        k = norm_text(c.node)[:80] if c.node is not None else c.why
        if k in seen:
            continue
        seen.add(k)
        R.check("C19.b", "no absolute constant meets a quantity that scales with the data", False, fit, c.node if c.node is not None else fit.node,
                msg=f"{fit.short}: {c.why} at `{unparse(c.node)[:70] if c.node is not None else ''}`: the fit is not equivariant under rescaling of the coordinates "
                    f"(the sampler fits in unit-cube coordinates of arbitrary scale)", key=f"scale-conflict:{k}")
    if not di.conflicts:
        R.check("C19.b", "degree typing of the fit closed without conflicts", True, fit, fit.node, key="fit-degree-clean")
    R.floor("C19.b", "typed return components", n, 6)
    R.analysed["C19.b:unknown_ops"] = sorted({u.why for u in di.unknowns})[:10]


def rule_c(ctx: Context, R: Reporter):
    from .c14 import mode_class

    mc = mode_class(ctx)
    n = 0
    for m in mc.methods.values():
        if m.name == "__init__":
            continue
        flow = flow_of(m.node)
        for nd in flow.cfg.stmt_nodes():
            if nd.kind == "stmt" and isinstance(nd.stmt, ast.Assign) and isinstance(nd.stmt.value, ast.Call) and (ctx.res.external_name(m, nd.stmt.value) or "") == "numpy.random.choice" and isinstance(nd.stmt.targets[0], ast.Name):
                idx = nd.stmt.targets[0].id
                pop = nd.stmt.value.args[0] if nd.stmt.value.args else None
                owner = None
                if isinstance(pop, ast.Name):
                    for d in flow.reaching(nd, pop.id):
                        v = d.value
                        if isinstance(v, ast.Call) and dotted(v.func) == "len" and v.args and isinstance(v.args[0], ast.Name):
                            owner = v.args[0].id
                        elif isinstance(v, ast.Subscript) and isinstance(v.value, ast.Attribute) and v.value.attr == "shape" and isinstance(v.value.value, ast.Name) and const_value(v.slice) == 0:
                            owner = v.value.value.id
                elif isinstance(pop, ast.Call) and dotted(pop.func) == "len" and pop.args and isinstance(pop.args[0], ast.Name):
                    owner = pop.args[0].id
                if owner is None:
                    raise AnalysisError(f"C19.c: {m.short}: population of `{unparse(nd.stmt.value)[:50]}` is not len(<array>)")
                for u in flow.cfg.stmt_nodes():
                    if u.ast is None:
                        continue
                    for s in ast.walk(u.ast):
                        if isinstance(s, ast.Subscript) and isinstance(s.slice, ast.Name) and s.slice.id == idx and isinstance(s.value, ast.Name) and any(d.node is nd for d in flow.reaching(u, idx)):
                            n += 1
                            same = s.value.id == owner and {d.node.id for d in flow.reaching(u, owner) if d.node} == {d.node.id for d in flow.reaching(nd, owner) if d.node}
                            R.check("C19.c", f"{m.short}: index drawn over range(len({owner})) subscripts `{owner}`", same, m, s,
                                    msg=f"{m.short}: `{idx}` is drawn over range(len({owner})) but used as `{unparse(s)}`: rows of a different array are selected "
                                        f"(each mode would be fitted from the wrong particles)", key=f"index-space:{m.name}")
                # p has the same length: p's base is the weights of the same owner selection
    R.floor("C19.c", "resampling-index uses in the factories", n, 1)
    # hand-written inverse-CDF draws: searchsorted over a running sum returns len(w) when the uniform exceeds the
    # rounded total, unless the running sum is divided by its last element or the result is clamped
    for m in list(mc.methods.values()) + [f for f in ctx.prog.functions.values() if f.module is fit_fn(ctx).module and f.cls is None]:
        flow = flow_of(m.node)
        for nd in flow.cfg.stmt_nodes():
            for c in calls_in_node(nd):
                if (ctx.res.external_name(m, c) or "") != "numpy.searchsorted" or not c.args:
                    continue
                from ..dataflow import Resolver as _Res

                a0 = _Res(m.node).resolve(c.args[0], nd)
                if not any(isinstance(x, ast.Call) and (ctx.res.external_name(m, x) or dotted(x.func)).split(".")[-1] == "cumsum" for x in ast.walk(a0)):
                    continue
                normalised = any(isinstance(x, ast.BinOp) and isinstance(x.op, ast.Div) and "[-1]" in norm_text(x.right) for x in ast.walk(a0))
                if not normalised and isinstance(c.args[0], ast.Name):
                    for st in walk_no_nested(m.node):
                        if isinstance(st, ast.AugAssign) and isinstance(st.op, ast.Div) and isinstance(st.target, ast.Name) and st.target.id == c.args[0].id and "[-1]" in norm_text(st.value):
                            normalised = True
                # clamped: the call is wrapped in minimum/clip, or its result name is re-bound through one
                clamped = False
                for x in walk_no_nested(m.node):
                    if isinstance(x, ast.Call) and (ctx.res.external_name(m, x) or "") in ("numpy.minimum", "numpy.clip") and any(y is c for a in x.args for y in ast.walk(a)):
                        clamped = True
                if isinstance(nd.stmt, ast.Assign) and isinstance(nd.stmt.targets[0], ast.Name):
                    tname = nd.stmt.targets[0].id
                    for x in walk_no_nested(m.node):
                        if isinstance(x, ast.Call) and (ctx.res.external_name(m, x) or "") in ("numpy.minimum", "numpy.clip") and x.args and isinstance(x.args[0], ast.Name) and x.args[0].id == tname:
                            clamped = True
                R.check("C19.c", f"{m.short}: an inverse-CDF index (searchsorted over a running sum) is normalised or clamped", normalised or clamped, m, c,
                        msg=f"{m.short}: `{unparse(c)[:70]}` returns len(weights) whenever the uniform draw exceeds the rounded running total (sums a few ulps below 1 are "
                            f"common): the index runs past the cluster's rows and the fit raises instead of returning", key=f"inverse-cdf-unclamped:{m.short}")


def rule_e(ctx: Context, R: Reporter, fit: FuncInfo):
    """C19.e  per-coordinate scaling (x_i -> d_i x_i, an independent unit per coordinate): covariance typing of
    the fit.  With the data typed (samples, d_i) the location must come out as d_i, the scale matrix as
    d_i d_j and the degrees of freedom as unit-free, and nothing on the way may mix entries of different
    units (trace of the covariance, a ridge c * identity added to it, a mean over coordinates, a
    transcendental function or a threshold applied to a scaled quantity)."""
    from ..coord import INVC, CoordInterp, co

    def internal(call):
        for t in ctx.res.call_targets(fit, call):
            if isinstance(t, FuncInfo) and t.cls is None and t.parent is None and t is not fit:
                return (t.node, (lambda c, t=t: ctx.res.external_name(t, c)), False)
        return None

    ci = CoordInterp(lambda c: ctx.res.external_name(fit, c), internal=internal)
    rets = ci.run(fit.node, {fit.params[0]: co(None, 1)})
    want = [co(1), co(1, 1), INVC]
    n = 0
    for (r, t) in rets:
        if t.kind != "tuple" or len(t.items) != 3:
            if ci.conflicts:
                continue
            raise AnalysisError(f"C19.e: return `{unparse(r)[:50]}` not typed as a triple ({t!r})")
        for i, (c, w) in enumerate(zip(t.items, want)):
            n += 1
            if c.kind in ("unknown", "conflict"):
                if ci.conflicts:
                    continue
                raise AnalysisError(f"C19.e: return component {i} not typable under per-coordinate scaling ({c.why})")
            got = tuple(0 if a is None else a for a in c.axes)
            ok = c.kind == "arr" and got == tuple(0 if a is None else a for a in w.axes)
            R.check("C19.e", f"fit result component {i} transforms like {w!r} under per-coordinate scaling", ok, fit, r,
                    msg=f"{fit.short}: component {i} of `{unparse(r)[:50]}` has type {c!r}; equivariance under per-coordinate scaling requires {w!r}", key=f"coord-type:{i}:{norm_text(r.value)[:30]}")
    seen = set()
    for c in ci.conflicts:
        k = norm_text(c.node)[:80] if c.node is not None else c.why
        if k in seen:
            continue
        seen.add(k)
        R.check("C19.e", "the fit never mixes entries that carry the units of different coordinates", False, fit, c.node if c.node is not None else fit.node,
                msg=f"{fit.short}: {c.why} at `{unparse(c.node)[:70] if c.node is not None else ''}`: the result changes (beyond D Sigma D / D mu) when the coordinates are rescaled "
                    f"independently -- the sampler fits in unit-cube coordinates whose scales differ by orders of magnitude", key=f"coord-conflict:{k}")
    if not ci.conflicts:
        R.check("C19.e", "per-coordinate typing of the fit closed without conflicts", True, fit, fit.node, key="coord-clean")
    R.floor("C19.e", "typed return components (per-coordinate)", n, 6)
    R.analysed["C19.e:unknown_ops"] = sorted({u.why for u in ci.unknowns})[:10]


def rule_d(ctx: Context, R: Reporter):
    """C19.d  the mode factories do not depend on the absolute scale of the particle weights: degree typing under
    weights -> s * weights of both factories (helpers inlined).  A sub-vector of globally normalised
    weights (one cluster's weights) is an arbitrarily scaled weight vector, so an absolute threshold or a
    closeness test with an absolute tolerance on the weights makes a low-mass cluster behave differently
    from a high-mass one."""
    from .c14 import mode_class

    mc = mode_class(ctx)
    facs = [m for m in mc.methods.values() if m.is_classmethod and "weights" in m.params]
    R.floor("C19.d", "mode factories taking weights", len(facs), 2)
    for m in facs:
        def internal(call, m=m):
            f = call.func
            if isinstance(f, ast.Attribute) and isinstance(f.value, ast.Name) and f.value.id in ("cls", "self", mc.name):
                t = ctx.prog.mro_lookup(mc, f.attr)
                if t is not None and not t.is_classmethod or (t is not None and t is not m and f.attr.startswith("_")):
                    return (t.node, (lambda c, t=t: ctx.res.external_name(t, c)), not t.is_staticmethod)
            return None

        extra = {
            "numpy.random.choice": lambda di, e, args: INV,
            "numpy.tile": lambda di, e, args: args[0] if args else INV,
            "numpy.repeat": lambda di, e, args: args[0] if args else INV,
            "numpy.unique": lambda di, e, args: args[0] if args else INV,
            "numpy.searchsorted": lambda di, e, args: INV,
        }
        for c in calls_in(m.node):
            for t in ctx.res.call_targets(m, c):
                if isinstance(t, FuncInfo) and t.cls is None:
                    extra[f"{t.module.name}.{t.name}"] = lambda di, e, args: T("tuple", [INV, INV, INV])
        class _SubMass(DegreeInterp):
            # a sub-vector of a normalised weight vector (one cluster's weights) carries its own free scale: the cluster's mass
            def eval(self, e, env):
                if isinstance(e, ast.Subscript) and not isinstance(e.slice, (ast.Constant, ast.Slice)):
                    b = DegreeInterp.eval(self, e.value, env)
                    if b.kind == "deg" and b.norm:
                        return deg(1)
                return DegreeInterp.eval(self, e, env)

        di = _SubMass(lambda c, m=m: (ctx.res.external_name(m, c) or next((f"{t.module.name}.{t.name}" for t in ctx.res.call_targets(m, c) if isinstance(t, FuncInfo) and t.cls is None), None)),
                          weight_params=("weights",), internal=internal, extra_degrees=extra)
        di.run(m.node)
        seen = set()
        for c in di.conflicts:
            k = norm_text(c.node)[:80] if c.node is not None else c.why
            if k in seen:
                continue
            seen.add(k)
            R.check("C19.d", f"{m.short}: nothing compares the particle weights with an absolute constant", False, m, c.node if c.node is not None else m.node,
                    msg=f"{m.short}: {c.why} at `{unparse(c.node)[:70] if c.node is not None else ''}`: the weighted resampling before the Student-t fit depends on the total mass of the "
                        f"cluster, so a low-mass mode is fitted from differently (e.g. uniformly) weighted particles", key=f"weight-scale-conflict:{m.name}:{k}")
        if not di.conflicts:
            R.check("C19.d", f"{m.short} is invariant under rescaling of the particle weights (degree typing closed)", True, m, m.node, key=f"weight-scale-clean:{m.name}")
        R.analysed[f"C19.d:{m.name}.unknown_ops"] = sorted({u.why for u in di.unknowns})[:10]


def rule_f(ctx: Context, R: Reporter, fit: FuncInfo):
    """C19.f  per-coordinate typing of the mode factories: between the particles (samples x d_i) and the call of
    the fit nothing mixes coordinates of different scale (a bandwidth from the pooled standard deviation, a
    jitter of one width for every coordinate, a distance in raw coordinates)."""
    from ..coord import INVC, CT, CoordInterp, co
    from .c14 import mode_class

    mc = mode_class(ctx)
    facs = [m for m in mc.methods.values() if m.is_classmethod and "weights" in m.params]
    R.floor("C19.f", "mode factories", len(facs), 2)
    for m in facs:
        def internal(call, m=m):
            f = call.func
            if isinstance(f, ast.Attribute) and isinstance(f.value, ast.Name) and f.value.id in ("cls", "self", mc.name):
                t = ctx.prog.mro_lookup(mc, f.attr)
                if t is not None and t is not m and not t.is_classmethod:
                    return (t.node, (lambda c, t=t: ctx.res.external_name(t, c)), not t.is_staticmethod)
            return None

        def fit_summary(di, e, args):
            a = args[0] if args else INVC
            if a.kind == "arr" and len(a.axes) == 2 and a.axes[1] is not None:
                k = a.axes[1]
                return CT("tuple", items=[CT("arr", (k,)), CT("arr", (k, k)), INVC])
            if a.kind in ("conflict", "unknown"):
                return CT("tuple", items=[a, a, INVC])
            return di._unknown("fit of an array that is not (samples, coordinates)", e)

        ci = CoordInterp(lambda c, m=m: ctx.res.external_name(m, c), internal=internal, summaries={fit.name: fit_summary, "cls": lambda di, e, a: INVC})
        ci.run(m.node, {"u": co(None, 1)})
        seen = set()
        for c in ci.conflicts:
            k = norm_text(c.node)[:80] if c.node is not None else c.why
            if k in seen:
                continue
            seen.add(k)
            R.check("C19.f", f"{m.short}: the particles reach the fit without mixing coordinates of different scale", False, m, c.node if c.node is not None else m.node,
                    msg=f"{m.short}: {c.why} at `{unparse(c.node)[:70] if c.node is not None else ''}`: the fitted location / scale matrix is not equivariant under per-coordinate "
                        f"rescaling of the particles (unit-cube coordinates of very different spread)", key=f"coord-conflict:{m.name}:{k}")
        if not ci.conflicts:
            R.check("C19.f", f"{m.short} is equivariant under per-coordinate scaling up to the fit (typing closed)", True, m, m.node, key=f"coord-clean:{m.name}")


def rule_h(ctx: Context, R: Reporter, fit: FuncInfo):
    """C19.h  breakdown of the starting location.  The location the iteration starts from is also what the fit *returns*
    whenever the first degrees-of-freedom update lands in the Gaussian limit (the early return inside the loop), so it must
    itself be a consistent location estimate for every law the property quantifies over -- including t laws with nu <= 1,
    which have no mean.  Decided on the expression that defines the returned location before the loop: built on a
    per-coordinate order statistic (median / quantile / percentile) -> discharged; built on a moment of the sample (mean,
    average, sum) and no order statistic -> violation; anything else -> undecided."""
    rets = [r for r in walk_no_nested(fit.node) if isinstance(r, ast.Return) and isinstance(r.value, ast.Tuple) and len(r.value.elts) == 3]
    locs = set()
    for r in rets:
        b = r.value.elts[0]
        while isinstance(b, (ast.Subscript, ast.Attribute, ast.Call)):
            b = b.value if not isinstance(b, ast.Call) else b.func
        if isinstance(b, ast.Name):
            locs.add(b.id)
    if len(locs) != 1:
        raise AnalysisError(f"C19.h: returned location is not one variable ({sorted(locs)})")
    loc = next(iter(locs))
    pre = []
    for st in fit.node.body:
        if isinstance(st, (ast.While, ast.For)):
            break
        pre.append(st)
    else:
        raise AnalysisError("C19.h: no iteration found in the fit")
    defs: Dict[str, ast.AST] = {}
    for st in pre:
        if isinstance(st, ast.Assign) and len(st.targets) == 1 and isinstance(st.targets[0], ast.Name):
            defs[st.targets[0].id] = st
        elif isinstance(st, (ast.If, ast.Try, ast.With)) and any(isinstance(x, ast.Name) and isinstance(x.ctx, ast.Store) and x.id == loc for x in ast.walk(st)):
            raise AnalysisError("C19.h: starting location is defined conditionally (not modelled)")
    if loc not in defs:
        raise AnalysisError(f"C19.h: no definition of `{loc}` before the iteration")
    start = defs[loc]
    seen, kinds = set(), set()

    def visit(e, depth):
        for x in ast.walk(e):
            if isinstance(x, ast.Call):
                nm = ctx.res.external_name(fit, x) or (x.func.attr if isinstance(x.func, ast.Attribute) else "")
                leaf = nm.split(".")[-1]
                if leaf in ("median", "nanmedian", "quantile", "percentile", "nanquantile", "nanpercentile", "partition", "sort", "argsort"):
                    kinds.add("order")
                elif leaf in ("mean", "average", "sum", "nanmean", "nansum", "einsum", "dot", "trapz"):
                    kinds.add("moment")
            elif isinstance(x, ast.Name) and isinstance(x.ctx, ast.Load) and x.id in defs and x.id not in seen and depth < 5 and x.id not in {a.arg for a in fit.node.args.args}:
                seen.add(x.id)
                visit(defs[x.id].value, depth + 1)

    seen.add(loc)
    visit(start.value, 0)
    if "order" in kinds:
        R.check("C19.h", "the location the iteration starts from (and returns in the Gaussian limit) is built on a per-coordinate order statistic", True, fit, start, key="start-location-robust")
    elif "moment" in kinds:
        R.check("C19.h", "the location the iteration starts from (and returns in the Gaussian limit) is built on a per-coordinate order statistic", False, fit, start,
                msg=f"{fit.short}: starting location `{unparse(start.value)[:70]}` is a sample moment: for t-distributed data with nu <= 1 it does not converge, and it is returned as is when the first nu update lands in the Gaussian limit",
                key="start-location-robust")
    else:
        raise AnalysisError(f"C19.h: starting location `{unparse(start.value)[:60]}` is neither an order statistic nor a sample moment (not modelled)")


_PRESERVING_METHODS = ("reshape", "copy", "astype", "ravel", "flatten", "squeeze", "view")
_PRESERVING_FUNCS = ("numpy.asarray", "numpy.array", "numpy.atleast_1d", "numpy.atleast_2d", "numpy.ascontiguousarray", "numpy.asanyarray", "numpy.squeeze", "numpy.copy", "numpy.stack", "numpy.vstack")


def _strip_preserving(ctx: Context, fi: FuncInfo, e: ast.expr) -> ast.expr:
    """the expression under re-shapings, copies and container wrappers that keep every value"""
    while True:
        if isinstance(e, ast.Call) and isinstance(e.func, ast.Attribute) and e.func.attr in _PRESERVING_METHODS and not (ctx.res.external_name(fi, e) or "").startswith("numpy."):
            e = e.func.value
        elif isinstance(e, ast.Call) and (ctx.res.external_name(fi, e) or "") in _PRESERVING_FUNCS and e.args:
            e = e.args[0]
        elif isinstance(e, (ast.List, ast.Tuple)) and len(e.elts) == 1:
            e = e.elts[0]
        elif isinstance(e, ast.Attribute) and e.attr == "T":
            e = e.value
        elif isinstance(e, ast.Subscript) and all(isinstance(i, ast.Slice) or (isinstance(i, ast.Constant) and i.value in (None, Ellipsis)) or (isinstance(i, ast.Attribute) and i.attr == "newaxis")
                                                   for i in (e.slice.elts if isinstance(e.slice, ast.Tuple) else [e.slice])):
            e = e.value
        else:
            return e


def _pinned_digest():
    import json, os
    try:
        return json.load(open(os.path.join(os.path.dirname(os.path.dirname(__file__)), "pinned_tree.json")))["digest"]
    except Exception:
        return None


def rule_i(ctx: Context, R: Reporter, fit: FuncInfo):
    """C19.i  what the fit returned is what the proposal gets.  In every factory the location and the scale matrix unpacked
    from the Student-t fit reach the mode-statistics constructor through value-preserving steps only (re-shaping, copying,
    stacking): no later statement re-defines them from other quantities, and in the per-mode loop every entry appended to
    the lists handed to the constructor is the fit result of that same iteration (a mode never receives the statistics of
    another particle set)."""
    from .c14 import mode_class

    mc = mode_class(ctx)
    n_sites = 0
    for m in [x for x in mc.methods.values() if x.name != "__init__"]:
        sites = [st for st in walk_no_nested(m.node) if isinstance(st, ast.Assign) and isinstance(st.value, ast.Call)
                 and fit in [t for t in ctx.res.call_targets(m, st.value) if isinstance(t, FuncInfo)]]
        if not sites:
            continue
        if len(sites) != 1:
            raise AnalysisError(f"C19.i: {m.short}: {len(sites)} fit call sites in one factory (not modelled)")
        site = sites[0]
        tgt = site.targets[0]
        n_sites += 1
        if not (isinstance(tgt, ast.Tuple) and len(tgt.elts) == 3 and all(isinstance(x, ast.Name) for x in tgt.elts)):
            R.analysed.setdefault("C19.i:fit sites not unpacked into three names (no obligation)", []).append(m.short)
            continue
        fitted = {"means": tgt.elts[0].id, "covariances": tgt.elts[1].id}
        # (1) no re-definition from other quantities
        for st in walk_no_nested(m.node):
            if st is site:
                continue
            tnames = []
            if isinstance(st, ast.Assign):
                tnames = [x.id for t in st.targets for x in ast.walk(t) if isinstance(x, ast.Name) and isinstance(x.ctx, ast.Store)]
            elif isinstance(st, (ast.AugAssign, ast.AnnAssign)) and isinstance(st.target, ast.Name):
                tnames = [st.target.id]
            elif isinstance(st, (ast.For, ast.comprehension)):
                tnames = [x.id for x in ast.walk(st.target) if isinstance(x, ast.Name)]
            for role, nm in fitted.items():
                if nm not in tnames:
                    continue
                val = getattr(st, "value", None)
                core = _strip_preserving(ctx, m, val) if val is not None and isinstance(st, ast.Assign) else None
                if isinstance(core, ast.Name) and core.id == nm:
                    continue  # re-shaped / copied
                reads = {x.id for x in ast.walk(val) if isinstance(x, ast.Name) and isinstance(x.ctx, ast.Load)} if val is not None else set()
                others = sorted(r for r in reads - {nm, "np", "numpy", "cls", "self"} if r not in ctx.prog.modules and not r[:1].isupper())
                if isinstance(st, ast.AugAssign) or others or not reads:
                    R.check("C19.i", f"{m.short}: the fitted {role[:-1]} reaches the constructor unaltered", False, m, st,
                            msg=f"{m.short}: `{norm_text(st)[:80]}` re-defines the fitted {'location' if role == 'means' else 'scale matrix'} `{nm}` after the fit"
                                + (f" from {others[:3]}" if others else "") + ": the proposal no longer carries the parameters the fit recovered", key=f"fit-result-altered:{m.name}:{role}")
                else:
                    raise AnalysisError(f"C19.i: {m.short}: `{norm_text(st)[:60]}` rewrites `{nm}` in terms of itself (not modelled)")
        # (2) the constructor's arguments
        ctor = [c for c in calls_in(m.node) if isinstance(c.func, ast.Name) and c.func.id == "cls" or mc in [t for t in ctx.res.call_targets(m, c) if isinstance(t, ClassInfo)]]
        if not ctor:
            raise AnalysisError(f"C19.i: {m.short}: no constructor call found")
        loops = [l for l in walk_no_nested(m.node) if isinstance(l, (ast.For, ast.While)) and any(x is site for x in ast.walk(l))]
        for c in ctor:
            bound = dict((n, v) for n, v in bound_arguments(c) if n)
            if not bound:
                params = [p for p in mc.methods["__init__"].params if p != "self"]
                bound = {p: a for p, a in zip(params, c.args)}
                bound.update({k.arg: k.value for k in c.keywords if k.arg})
            for role, nm in fitted.items():
                if role not in bound:
                    raise AnalysisError(f"C19.i: {m.short}: constructor call does not name `{role}`")
                core = _strip_preserving(ctx, m, bound[role])
                if not isinstance(core, ast.Name):
                    R.analysed.setdefault("C19.i:constructor arguments not followed (shape not modelled, no obligation)", []).append(f"{m.short}:{role}")
                    continue
                if core.id == nm and not loops:
                    R.check("C19.i", f"{m.short}: the constructor's {role} are the fit results", True, m, c, key=f"ctor-arg:{m.name}:{role}")
                    continue
                # a list filled in the per-mode loop
                L = core.id
                appends = [a for a in calls_in(m.node) if isinstance(a.func, ast.Attribute) and a.func.attr in ("append", "extend", "insert") and isinstance(a.func.value, ast.Name) and a.func.value.id == L]
                if not appends or not loops:
                    # not the shapes this rule reads (a list filled in the per-mode loop / the fitted name itself): no decision
                    R.analysed.setdefault("C19.i:constructor arguments not followed (shape not modelled, no obligation)", []).append(f"{m.short}:{role}")
                    continue
                inner = loops[-1]
                for a in appends:
                    item = _strip_preserving(ctx, m, a.args[-1]) if a.args and a.func.attr != "extend" else None
                    same_iteration = any(x is a for x in ast.walk(inner))
                    ok = isinstance(item, ast.Name) and item.id == nm and same_iteration
                    R.check("C19.i", f"{m.short}: every entry of `{L}` is the fit of that mode's own particles", ok, m, a,
                            msg=f"{m.short}: `{unparse(a)[:70]}` puts something other than this iteration's fit result `{nm}` into the {role} of a mode"
                                ": that mode's location / scale then describe a different particle set (location outside the mode's bounding box)",
                            key=f"mode-entry:{m.name}:{role}:{norm_text(a)[:40]}")
                others = [st for st in walk_no_nested(m.node) if isinstance(st, ast.Assign) and any(isinstance(t, ast.Name) and t.id == L for t in st.targets)
                          and not (isinstance(st.value, (ast.List,)) and not st.value.elts)]
                if others:
                    raise AnalysisError(f"C19.i: {m.short}: `{L}` is also assigned by `{norm_text(others[0])[:50]}` (not modelled)")
    any_site = sum(1 for m in mc.methods.values() for c in calls_in(m.node) if fit in [t for t in ctx.res.call_targets(m, c) if isinstance(t, FuncInfo)])
    if any_site >= 2 or ctx.prog.digest() == _pinned_digest():
        R.floor("C19.i", "fit call sites whose results are followed to the constructor", max(n_sites, any_site), 2)
    else:
        R.analysed["C19.i:fit call sites in the factories"] = any_site  # the fit moved behind a helper the normal form keeps: nothing to follow


def rule_stateless(ctx: Context, R: Reporter):
    """C19.g  the step object is a function of the state object it works on: no method other than the constructor stores
    state-derived data in the step object for a later call to read back."""
    from ..util import stateless_steps_rule

    stateless_steps_rule(ctx, R, "C19.g", ("Trainer",), "the kernel is driven by a proposal fitted to an earlier particle set / earlier weights")


def run(ctx: Context, R: Reporter):
    R.guard(rule_stateless, ctx, R)
    fit = fit_fn(ctx)
    R.guard(rule_a, ctx, R, fit)
    R.guard(rule_b, ctx, R, fit)
    R.guard(rule_c, ctx, R)
    R.guard(rule_e, ctx, R, fit)
    R.guard(rule_d, ctx, R)
    R.guard(rule_f, ctx, R, fit)
    R.guard(rule_h, ctx, R, fit)
    R.guard(rule_i, ctx, R, fit)


def variants():
    from ..variants import Variant, alpha_rename, edit, replace_expr, replace_stmt

    md = "tempest/modes.py"
    st = "tempest/student.py"
    from .c14 import _drop_dof_guard

    from ..variants import insert_before as _ib

    return [
        Variant("g-trainer-caches-mode-stats", "bad", _ib("tempest/steps/train.py", "Trainer.run", "return mode_stats", "if refit:\n    self._mode_stats = mode_stats\nelse:\n    mode_stats = getattr(self, '_mode_stats', mode_stats)"), ["C19.g"], quick=True),
        Variant("g-benign-trainer-diagnostic", "benign", _ib("tempest/steps/train.py", "Trainer.run", "return mode_stats", "self._last_K = mode_stats.K")),
        Variant("a-bracket-lower-moderate", "bad", replace_expr(st, "fit_mvstud", "optimize.bisect(func0, 1e-300, 1e300)", "optimize.bisect(func0, 1e-3, 1e300)"), ["C19.a"], quick=True),
        Variant("a-bracket-upper-unguarded", "bad", replace_expr(st, "fit_mvstud", "optimize.bisect(func0, 1e-300, 1e300)", "optimize.bisect(func0, 1e-300, 1e6)"), ["C19.a"]),
        Variant("a-bracket-lower-still-tiny-benign", "benign", replace_expr(st, "fit_mvstud", "optimize.bisect(func0, 1e-300, 1e300)", "optimize.bisect(func0, 1e-200, 1e300)")),
        Variant("b-absolute-location-tolerance", "bad", replace_expr(st, "fit_mvstud", "np.abs(last_nu - nu) > tolerance", "np.abs(last_nu - nu) > tolerance and np.max(np.abs(mu)) > tolerance"), ["C19.b"]),
        Variant("a-drop-guard-global", "bad", edit(md, "ModeStatistics.from_global", _drop_dof_guard), ["C19.a"], quick=True),
        Variant("a-guard-polarity", "bad", replace_expr(md, "ModeStatistics.from_particles", "~np.isfinite(dof)", "np.isfinite(dof)"), ["C19.a"]),
        Variant("a-trainer-drops-fallback", "bad", replace_expr("tempest/steps/train.py", "Trainer.run", "ModeStatistics.from_global(u, weights_trimmed, dof_fallback=self.DOF_FALLBACK)", "ModeStatistics.from_global(u, weights_trimmed)"), ["C19.a"], quick=True),
        Variant("b-absolute-floor", "bad", replace_expr(st, "fit_mvstud", "np.var(data, axis=1)", "np.maximum(np.var(data, axis=1), 1e-08)"), ["C19.b"], quick=True),
        Variant("b-absolute-ridge", "bad", replace_expr(st, "fit_mvstud", "1 / n * np.diag(np.var(data, axis=1))", "1e-06 * np.eye(dim)"), ["C19.b"]),
        Variant("c-wrong-array", "bad", replace_expr(md, "ModeStatistics.from_particles", "u_cluster[idx_resample]", "u[idx_resample]"), ["C19.c"], quick=True),
        Variant("f-pooled-jitter", "bad", replace_stmt(md, "ModeStatistics.from_global", "u_resampled = u[idx_resample]", "u_resampled = u[idx_resample]\nu_resampled = u_resampled + 1e-3 * np.std(u_resampled) * np.random.standard_normal(u_resampled.shape)"), ["C19.f"], quick=True),
        Variant("f-benign-per-coordinate-jitter", "benign", replace_stmt(md, "ModeStatistics.from_global", "u_resampled = u[idx_resample]", "u_resampled = u[idx_resample]\nu_resampled = u_resampled + 1e-3 * np.std(u_resampled, axis=0) * np.random.standard_normal(u_resampled.shape)")),
        Variant("e-trace-shrinkage", "bad", replace_stmt(st, "fit_mvstud", "nu = 20", "Sigma = 0.9 * Sigma + 0.1 * np.trace(Sigma) / dim * np.eye(dim)\nnu = 20"), ["C19.e"], quick=True),
        Variant("e-relative-ridge", "bad", replace_expr(st, "fit_mvstud", "1 / n * np.diag(np.var(data, axis=1))", "1 / n * np.mean(np.var(data, axis=1)) * np.eye(dim)"), ["C19.e"]),
        Variant("i-covariance-rescaled-by-dof", "bad", replace_stmt(md, "ModeStatistics.from_global", "dof = dof_fallback", "dof = dof_fallback\ncovariance = covariance * ((dof - 2) / dof)"), ["C19.i"], quick=True),
        Variant("i-mean-shrunk-in-place", "bad", _ib(md, "ModeStatistics.from_particles", "means.append(mean)", "mean *= 0.99"), ["C19.i"]),
        Variant("i-tiny-mode-gets-global-fit", "bad", _ib(md, "ModeStatistics.from_particles", "u_cluster = u[idx_cluster]", "if len(idx_cluster) <= 4 * u.shape[1] and len(unique_labels) > 1:\n    g = cls.from_global(u, weights, dof_fallback=dof_fallback)\n    means.append(g.means[0])\n    covariances.append(g.covariances[0])\n    degrees_of_freedom.append(g.degrees_of_freedom[0])\n    continue"), ["C19.i"], quick=True),
        Variant("i-benign-entries-copied", "benign", replace_stmt(md, "ModeStatistics.from_particles", "means.append(mean)", "means.append(np.asarray(mean).copy())")),
        Variant("i-benign-covariance-contiguous", "benign", _ib(md, "ModeStatistics.from_global", "return cls(", "covariance = np.ascontiguousarray(covariance)")),
        Variant("h-start-at-sample-mean", "bad", replace_expr(st, "fit_mvstud", "np.array([np.median(data, 1)]).T", "np.mean(data, axis=1, keepdims=True)"), ["C19.h"], quick=True),
        Variant("h-start-at-weighted-average", "bad", replace_expr(st, "fit_mvstud", "np.array([np.median(data, 1)]).T", "np.average(data, axis=1).reshape(-1, 1)"), ["C19.h"]),
        Variant("h-benign-median-via-quantile", "benign", replace_expr(st, "fit_mvstud", "np.median(data, 1)", "np.quantile(data, 0.5, axis=1)")),
        Variant("h-benign-median-bound-first", "benign", replace_stmt(st, "fit_mvstud", "mu = np.array([np.median(data, 1)]).T", "centre = np.median(data, axis=1)\nmu = centre.reshape(-1, 1)")),
        Variant("e-location-global-median", "bad", replace_expr(st, "fit_mvstud", "np.median(data, 1)", "np.median(data, 1) * 0 + np.median(data)"), ["C19.e"]),
        Variant("e-benign-diag-ridge-spelled-with-std", "benign", replace_expr(st, "fit_mvstud", "np.diag(np.var(data, axis=1))", "np.diag(np.std(data, axis=1) ** 2)")),
        Variant("d-uniform-shortcut-absolute", "bad", replace_stmt(md, "ModeStatistics.from_particles", "weights_cluster = weights_cluster / np.sum(weights_cluster)", "uniform = np.allclose(weights_cluster, weights_cluster[0])\nweights_cluster = np.ones(len(weights_cluster)) / len(weights_cluster) if uniform else weights_cluster / np.sum(weights_cluster)"), ["C19.d"], quick=True),
        Variant("d-benign-uniform-shortcut-relative", "benign", replace_stmt(md, "ModeStatistics.from_particles", "weights_cluster = weights_cluster / np.sum(weights_cluster)", "weights_cluster = weights_cluster / np.sum(weights_cluster)\nuniform = np.allclose(weights_cluster * len(weights_cluster), 1.0)")),
        Variant("benign-rename-dof", "benign", alpha_rename(md, "ModeStatistics.from_global", "dof", "nu"), quick=True),
    ]
