"""C16  Boundary maps fold every real number into the unit interval correctly.

  C16.a  bounded-before-narrowing (A10): no float -> int conversion of a value
         that depends on the input without an intervening bounding operation
  C16.b  untouched coordinates: the input is copied; every subscript store uses
         the loop variable of the periodic / reflective index list
  C16.c  bounds predicate: strict set = all - (periodic | reflective); both
         closed comparisons (>= 0, <= 1) conjoined on the same slice for the 1-D
         and 2-D paths
  C16.d  fold formulas by abstract interpretation over the finite domain
         parity(floor) x {r = 0, 0 < r < 1}: with val = n + r the periodic branch
         must produce r and the reflective branch r (n even) / 1 - r (n odd)
"""
from __future__ import annotations

import ast
from fractions import Fraction
from typing import Dict, List, Optional, Tuple

from ..cfg import cfg_of
from ..dataflow import Resolver as ExprResolver
from ..dataflow import expr_leaves, flow_of, select_path
from ..engine import Context, Reporter
from ..fresh import fresh_copy_source
from ..model import AnalysisError, FuncInfo, dotted, norm_text, walk_no_nested
from ..util import call_arg, calls_in, calls_in_node, const_value, split_cond, unparse
from .c07 import bounds_helpers

PROP = "C16"
EXPLANATION = (
    "Decides the selection structure of the boundary map and bounds predicate (copy of the input, stores only at the "
    "designated indices, strict set = complement of the designated indices, two-sided closed comparison on both array "
    "ranks), the absence of an unbounded float-to-integer narrowing on the input's data path, and -- by abstract "
    "interpretation over the finite case split val = n + r, n even/odd, r = 0 or 0 < r < 1 -- that the periodic branch "
    "computes r and the reflective branch the period-2 triangle wave, for every real in exact arithmetic. Rounding at "
    "values within one ulp of an integer is not decided."
)
ASSUMPTIONS = ["exact real arithmetic for the fold formulas (floating-point rounding near integers not decided)", "numpy floor/mod/where semantics as tabulated in the fold domain"]


class Undecided(Exception):
    pass


class Lin:
    """a*n + b*r + c with n an integer of known parity, r in [0,1)."""

    __slots__ = ("a", "b", "c")

    def __init__(self, a, b, c):
        self.a, self.b, self.c = Fraction(a), Fraction(b), Fraction(c)

    def __eq__(self, o):
        return isinstance(o, Lin) and (self.a, self.b, self.c) == (o.a, o.b, o.c)

    def __repr__(self):
        return f"{self.a}*n + {self.b}*r + {self.c}"

    def is_const(self):
        return self.a == 0 and self.b == 0

    def is_integer_valued(self, rzero: bool):
        return self.a.denominator == 1 and self.c.denominator == 1 and (self.b == 0 or rzero)


def _fold_eval(e: ast.expr, env: Dict[str, object], case: Tuple[int, bool], ctx: Context, fi: FuncInfo):
    """Evaluate expression e in the fold domain for one case = (parity of n,
    r == 0).  Returns Lin or bool."""
    par, rzero = case

    def ev(x):
        return _fold_eval(x, env, case, ctx, fi)

    def as_lin(v):
        if isinstance(v, Lin):
            return v
        if isinstance(v, bool):
            return Lin(0, 0, int(v))
        raise Undecided(f"non-numeric value {v!r}")

    if isinstance(e, ast.Constant) and isinstance(e.value, (int, float)) and not isinstance(e.value, bool):
        return Lin(0, 0, Fraction(e.value).limit_denominator(10**9))
    if isinstance(e, ast.Name):
        if e.id in env:
            return env[e.id]
        raise Undecided(f"free name {e.id}")
    if isinstance(e, ast.Subscript):
        key = norm_text(e)
        if key in env:
            return env[key]
        raise Undecided(f"subscript {key}")
    if isinstance(e, ast.UnaryOp) and isinstance(e.op, ast.USub):
        v = as_lin(ev(e.operand))
        return Lin(-v.a, -v.b, -v.c)
    if isinstance(e, ast.BinOp):
        if isinstance(e.op, (ast.Add, ast.Sub)):
            l, r = as_lin(ev(e.left)), as_lin(ev(e.right))
            s = 1 if isinstance(e.op, ast.Add) else -1
            # exactness: a non-zero constant added to the unreduced coordinate (unbounded magnitude, or tiny) is
            # absorbed by rounding: |val| >= 2**53 or |val| < 2**-53 lose the constant / the value
            if (l.a != 0 and r.is_const() and r.c != 0) or (r.a != 0 and l.is_const() and l.c != 0):
                env.setdefault("__inexact__", []).append(e)
            return Lin(l.a + s * r.a, l.b + s * r.b, l.c + s * r.c)
        if isinstance(e.op, ast.Mult):
            l, r = as_lin(ev(e.left)), as_lin(ev(e.right))
            if l.is_const():
                return Lin(l.c * r.a, l.c * r.b, l.c * r.c)
            if r.is_const():
                return Lin(r.c * l.a, r.c * l.b, r.c * l.c)
            raise Undecided("product of two non-constants")
        if isinstance(e.op, ast.Mod):
            return _mod(as_lin(ev(e.left)), as_lin(ev(e.right)), case)
        if isinstance(e.op, ast.FloorDiv):
            r = as_lin(ev(e.right))
            if r.is_const() and r.c == 1:
                return _floor(as_lin(ev(e.left)), case)
            raise Undecided("floor division by a non-unit")
        raise Undecided(f"operator {type(e.op).__name__}")
    if isinstance(e, ast.Compare) and len(e.ops) == 1:
        l, r = as_lin(ev(e.left)), as_lin(ev(e.comparators[0]))
        d = Lin(l.a - r.a, l.b - r.b, l.c - r.c)
        env.pop("__cmp_boundary__", None)
        if not d.is_const():
            if rzero and d.a == 0:
                d = Lin(0, 0, d.c)
            elif d.a == 0:
                # 0 < r < 1 (open): the difference ranges over the open interval (lo, hi)
                lo, hi = min(d.c, d.c + d.b), max(d.c, d.c + d.b)
                op = e.ops[0]
                res = None
                if lo >= 0:
                    res = {ast.Gt: True, ast.GtE: True, ast.Lt: False, ast.LtE: False, ast.Eq: False, ast.NotEq: True}.get(type(op))
                elif hi <= 0:
                    res = {ast.Gt: False, ast.GtE: False, ast.Lt: True, ast.LtE: True, ast.Eq: False, ast.NotEq: True}.get(type(op))
                if res is None:
                    raise Undecided("comparison of non-constant fold values")
                # the threshold is the (excluded) end of the range: reached only through rounding, at r -> 0 or r -> 1
                if lo == 0 or hi == 0:
                    end = 0 if (lo == 0) == (d.b > 0) else 1
                    env["__cmp_boundary__"] = end
                return res
            else:
                raise Undecided("comparison of non-constant fold values")
        op = e.ops[0]
        table = {ast.Eq: d.c == 0, ast.NotEq: d.c != 0, ast.Lt: d.c < 0, ast.LtE: d.c <= 0, ast.Gt: d.c > 0, ast.GtE: d.c >= 0}
        for k, v in table.items():
            if isinstance(op, k):
                return v
        raise Undecided("comparison operator")
    if isinstance(e, ast.Call):
        name = ctx.res.external_name(fi, e) or dotted(e.func)
        if isinstance(e.func, ast.Attribute) and e.func.attr == "astype" and not name.startswith("numpy."):
            v = as_lin(ev(e.func.value))
            if v.is_integer_valued(rzero):
                return v
            raise Undecided("astype of a non-integer fold value")
        if isinstance(e.func, ast.Attribute) and e.func.attr == "copy":
            return ev(e.func.value)
        args = e.args
        if name in ("numpy.floor", "math.floor"):
            return _floor(as_lin(ev(args[0])), case)
        if name in ("numpy.ceil", "math.ceil"):
            v = as_lin(ev(args[0]))
            f = _floor(Lin(-v.a, -v.b, -v.c), case)
            return Lin(-f.a, -f.b, -f.c)
        if name in ("numpy.mod", "numpy.remainder", "numpy.fmod") and len(args) == 2:
            if name == "numpy.fmod":
                raise Undecided("fmod (sign of the dividend) is outside the fold domain")
            return _mod(as_lin(ev(args[0])), as_lin(ev(args[1])), case)
        if name == "numpy.where" and len(args) == 3:
            c = ev(args[0])
            if not isinstance(c, bool):
                raise Undecided("where condition is not decidable in the fold domain")
            end = env.pop("__cmp_boundary__", None)
            if end is not None and not rzero:
                # a branch that is dead in exact arithmetic and only taken when rounding lands on the end of the range
                # (a "round-off guard"): the value it substitutes must be the limit of the live branch there, or the
                # guarded map jumps at that point
                dead, live = (args[2], args[1]) if c else (args[1], args[2])
                try:
                    dv, lv = as_lin(ev(dead)), as_lin(ev(live))
                    if dv.a == 0 and lv.a == 0:
                        dlim, llim = dv.c + dv.b * end, lv.c + lv.b * end
                        if dlim != llim:
                            env.setdefault("__jump_guards__", []).append((e, float(llim), float(dlim)))
                except Undecided:
                    pass
            return ev(args[1]) if c else ev(args[2])
        if name in ("numpy.asarray", "numpy.array", "numpy.float64", "float", "builtins.float", "numpy.atleast_1d") and args:
            return ev(args[0])
        if name in ("int", "builtins.int", "numpy.int64", "numpy.int_") and args:
            v = as_lin(ev(args[0]))
            if v.is_integer_valued(rzero):
                return v
            raise Undecided("int() of a non-integer fold value")
        if name in ("numpy.abs", "abs", "builtins.abs", "numpy.fabs"):
            v = as_lin(ev(args[0]))
            if v.is_const():
                return Lin(0, 0, abs(v.c))
            if v.a == 0:
                lo, hi = (v.c, v.c) if rzero else (min(v.c, v.c + v.b), max(v.c, v.c + v.b))
                if lo >= 0:
                    return v
                if hi <= 0:
                    return Lin(0, -v.b, -v.c)
            raise Undecided("abs of a fold value of unknown sign")
        raise Undecided(f"call {name}")
    if isinstance(e, ast.IfExp):
        c = ev(e.test)
        if not isinstance(c, bool):
            raise Undecided("conditional on undecidable test")
        return ev(e.body) if c else ev(e.orelse)
    raise Undecided(type(e).__name__)


def _floor(v: Lin, case) -> Lin:
    par, rzero = case
    if v.a.denominator != 1 or v.c.denominator != 1:
        raise Undecided(f"floor of {v!r}")
    if v.b == 0 or rzero:
        return Lin(v.a, 0, v.c)
    if v.b == 1:
        return Lin(v.a, 0, v.c)
    if v.b == -1:
        return Lin(v.a, 0, v.c - 1)
    raise Undecided(f"floor of {v!r}")


def _mod(x: Lin, m: Lin, case) -> Lin:
    par, rzero = case
    if not m.is_const() or m.c <= 0 or m.c.denominator != 1:
        raise Undecided("modulus is not a positive integer constant")
    M = int(m.c)
    fl = _floor(x, case) if (x.a.denominator == 1 and x.c.denominator == 1 and x.b in (0, 1, -1)) else None
    if fl is None:
        raise Undecided(f"mod of {x!r}")
    frac = Lin(x.a - fl.a, x.b - fl.b if not rzero else 0, x.c - fl.c)  # in [0,1)
    # integer part mod M
    if M == 1:
        return frac
    if M == 2:
        if fl.a.denominator != 1:
            raise Undecided("parity of a non-integer multiple")
        ip = (int(fl.a) * par + int(fl.c)) % 2
        return Lin(frac.a, frac.b, frac.c + ip)
    if fl.a == 0:
        return Lin(frac.a, frac.b, frac.c + (int(fl.c) % M))
    raise Undecided(f"mod {M} of a symbolic integer")


CASES = [(0, True), (0, False), (1, True), (1, False)]


def work_name(bmap: FuncInfo) -> str:
    """Name of the working array of the boundary map: the array whose
    coordinates are stored into (the input parameter rebound to a copy, or a
    differently named copy of it)."""
    first = bmap.params[0]
    names = []
    for n in walk_no_nested(bmap.node):
        if isinstance(n, (ast.Assign, ast.AugAssign)):
            t = n.targets[0] if isinstance(n, ast.Assign) else n.target
            if isinstance(t, ast.Subscript) and isinstance(t.value, ast.Name):
                names.append(t.value.id)
    if not names:
        raise AnalysisError("C16: the boundary map stores into no array")
    if len(set(names)) != 1:
        raise AnalysisError(f"C16: the boundary map stores into several arrays {sorted(set(names))}")
    return names[0]


def rule_d(ctx: Context, R: Reporter, bmap: FuncInfo):
    flow = flow_of(bmap.node)
    cfg = flow.cfg
    uparam = work_name(bmap)
    loops = [n for n in cfg.stmt_nodes() if n.kind == "for" and isinstance(n.stmt.iter, ast.Name) and n.stmt.iter.id in bmap.params[1:]]
    R.floor("C16.d", "fold loops (periodic / reflective)", len(loops), 2)
    for lp in loops:
        kind = lp.stmt.iter.id  # 'periodic' or 'reflective' (parameter names are the role here)
        role = "periodic" if bmap.params.index(kind) == 1 else "reflective"
        body = lp.stmt.body
        idxvar = lp.stmt.target.id if isinstance(lp.stmt.target, ast.Name) else None
        results = {}
        undecided = None
        inexact = []
        jumps = []
        for case in CASES:
            env: Dict[str, object] = {"__inexact__": inexact, "__jump_guards__": jumps}
            # the input coordinate, under any subscript spelling that selects index idxvar
            out = None
            try:
                for st in body:
                    if isinstance(st, ast.Assign) and len(st.targets) == 1:
                        # bind every textual form `u[..., idx]` of the coordinate to val on first use
                        for sub in ast.walk(st.value):
                            if isinstance(sub, ast.Subscript) and isinstance(sub.value, ast.Name) and sub.value.id == uparam and idxvar in {x.id for x in ast.walk(sub.slice) if isinstance(x, ast.Name)}:
                                env.setdefault(norm_text(sub), Lin(1, 1, 0))
                        v = _fold_eval(st.value, env, case, ctx, bmap)
                        t = st.targets[0]
                        if isinstance(t, ast.Name):
                            env[t.id] = v
                        elif isinstance(t, ast.Subscript) and isinstance(t.value, ast.Name) and t.value.id == uparam:
                            out = v
                            env[norm_text(t)] = v
                        else:
                            raise Undecided(f"store to {unparse(t)}")
                    elif isinstance(st, ast.Expr) and isinstance(st.value, ast.Constant):
                        continue
                    elif isinstance(st, ast.AugAssign) and isinstance(st.target, ast.Subscript) and isinstance(st.op, ast.Mod):
                        key = norm_text(st.target)
                        env.setdefault(key, Lin(1, 1, 0))
                        v = _mod(env[key], _fold_eval(st.value, env, case, ctx, bmap), case)
                        env[key] = v
                        out = v
                    else:
                        raise Undecided(f"statement {type(st).__name__} in fold loop")
                if out is None:
                    raise Undecided("no store of the folded coordinate")
            except Undecided as ex:
                undecided = str(ex)
                break
            results[case] = out
        seen_ix = set()
        for ix in inexact:
            if norm_text(ix) in seen_ix:
                continue
            seen_ix.add(norm_text(ix))
            R.check("C16.d", f"{role} fold: the unreduced coordinate only meets exact operations (floor, mod, its own floor subtracted)", False, bmap, ix,
                    msg=f"{bmap.short}: `{unparse(ix)[:60]}` adds a constant to the unreduced coordinate: in floating point the constant is absorbed for |val| >= 2**53 "
                        f"(the fold lands on the wrong end point) and tiny in-range values are absorbed into the constant (points already in [0,1] are not returned unchanged)",
                    key=f"fold-exact:{role}:{norm_text(ix)[:40]}")
        if not inexact:
            R.check("C16.d", f"{role} fold: the unreduced coordinate only meets exact operations (floor, mod, its own floor subtracted)", True, bmap, lp.stmt, key=f"fold-exact:{role}")
        seen_j = set()
        for (je, llim, dlim) in jumps:
            if norm_text(je) in seen_j or role == "periodic" and {llim, dlim} == {0.0, 1.0}:
                continue  # periodic end points 0 and 1 are the same point
            seen_j.add(norm_text(je))
            R.check("C16.d", f"{role} fold: a round-off guard substitutes the limit of the value it guards", False, bmap, je,
                    msg=f"{bmap.short}: `{unparse(je)[:70]}` is dead in exact arithmetic and fires only when rounding lands on the end of the range, where the guarded value tends "
                        f"to {llim:g} but is replaced by {dlim:g}: the fold jumps there (e.g. a reflective coordinate of -1e-20 is mapped to 1 instead of 0)",
                    key=f"fold-guard-jump:{role}:{norm_text(je)[:40]}")
        if undecided is not None:
            raise AnalysisError(f"C16.d: {role} fold not decidable in the fold domain: {undecided}")
        for case, got in results.items():
            par, rzero = case
            if role == "periodic":
                want = Lin(0, 0 if rzero else 1, 0)
            else:
                want = Lin(0, 0 if rzero else 1, 0) if par == 0 else Lin(0, 0 if rzero else -1, 1)
            if rzero:
                got = Lin(got.a, 0, got.c)
            ok = got == want
            # periodic end points: 0 and 1 are identified
            if role == "periodic" and rzero and got == Lin(0, 0, 1):
                ok = True
            R.check(
                "C16.d", f"{role} fold of val = n + r, n {'even' if par == 0 else 'odd'}, {'r = 0' if rzero else '0 < r < 1'}", ok, bmap, lp.stmt,
                msg=f"{bmap.short}: the {role} branch maps n + r (n {'even' if par == 0 else 'odd'}, {'r = 0' if rzero else '0<r<1'}) to `{got}` but the "
                    f"{'wrap modulo 1' if role == 'periodic' else 'period-2 triangle wave'} requires `{want}`",
                witness={"case": f"parity={par}, r_zero={rzero}", "computed": repr(got), "required": repr(want)},
                key=f"fold:{role}:{par}:{int(rzero)}",
            )


def rule_a(ctx: Context, R: Reporter, bmap: FuncInfo):
    flow = flow_of(bmap.node)
    uparam = bmap.params[0]
    n = 0
    for c in calls_in(bmap.node):
        narrowing = None
        recv = None
        if isinstance(c.func, ast.Attribute) and c.func.attr == "astype" and c.args:
            t = norm_text(c.args[0])
            if "int" in t:
                narrowing, recv = f"astype({t})", c.func.value
        elif dotted(c.func) in ("int", "np.int64", "np.int32", "np.intp", "np.int_") and c.args:
            narrowing, recv = dotted(c.func), c.args[0]
        if narrowing is None:
            continue
        n += 1
        at = flow.node_containing(c)
        rx = ExprResolver(bmap.node).resolve(recv, at)
        depends = bool({uparam, work_name(bmap)} & {x.id for x in ast.walk(rx) if isinstance(x, ast.Name)})
        bounded = any((isinstance(x, ast.BinOp) and isinstance(x.op, ast.Mod)) or
                      (isinstance(x, ast.Call) and (ctx.res.external_name(bmap, x) or "") in ("numpy.mod", "numpy.remainder", "numpy.clip", "numpy.minimum", "numpy.maximum", "numpy.fmod"))
                      for x in ast.walk(rx))
        R.check(
            "C16.a", "no float -> int narrowing of an unbounded input-dependent value", (not depends) or bounded, bmap, c,
            msg=f"{bmap.short}: `{unparse(c)[:60]}` converts `{unparse(rx)[:60]}` (depends on the input, unbounded) to an integer type: for |value| beyond the int64 range the "
                f"conversion wraps and the fold returns a value outside [0,1]",
            witness={"resolved": unparse(rx)}, key=f"narrowing:{norm_text(c)[:60]}",
        )
    R.analysed["C16.a:narrowing_sites"] = n
    R.check("C16.a", f"scanned the boundary map for float->int narrowing ({n} site(s))", True, bmap, bmap.node, key="scan")


def rule_b(ctx: Context, R: Reporter, bmap: FuncInfo):
    flow = flow_of(bmap.node)
    cfg = flow.cfg
    inparam = bmap.params[0]
    uparam = work_name(bmap)
    # the working array is bound to a copy of the input before any store
    copies = [n for n in cfg.stmt_nodes() if n.kind == "stmt" and isinstance(n.stmt, ast.Assign) and isinstance(n.stmt.targets[0], ast.Name) and n.stmt.targets[0].id == uparam]
    copy_ok = False
    for cnode in copies:
        v = cnode.stmt.value
        src_ = fresh_copy_source(lambda c_: ctx.res.external_name(bmap, c_), v)
        if isinstance(src_, ast.Name) and src_.id == inparam:
            copy_ok = True
    stores = [n for n in cfg.stmt_nodes() if n.kind == "stmt" and isinstance(n.stmt, (ast.Assign, ast.AugAssign)) and
              isinstance((n.stmt.targets[0] if isinstance(n.stmt, ast.Assign) else n.stmt.target), ast.Subscript)]
    R.floor("C16.b", "subscript stores in the boundary map", len(stores), 2)
    for st in stores:
        t = st.stmt.targets[0] if isinstance(st.stmt, ast.Assign) else st.stmt.target
        if not (isinstance(t.value, ast.Name) and t.value.id == uparam):
            continue
        dominated = any(cfg.dominates(c.id, st.id) for c in copies) and copy_ok
        R.check("C16.b", "stores go to a copy of the input, never to the caller's array", dominated, bmap, st.stmt,
                msg=f"{bmap.short}: `{unparse(st.stmt)[:60]}` writes into the caller's array (no dominating `{uparam} = {uparam}.copy()`)", key=f"copy-before-store:{norm_text(t)}")
        # index = loop variable of the designated index list, last axis only
        ok_idx = False
        if st.loops:
            head = cfg.nodes[st.loops[-1]]
            if head.kind == "for" and isinstance(head.stmt.target, ast.Name) and isinstance(head.stmt.iter, ast.Name) and head.stmt.iter.id in bmap.params[1:]:
                lv = head.stmt.target.id
                sl = t.slice
                if isinstance(sl, ast.Tuple) and len(sl.elts) == 2 and isinstance(sl.elts[0], ast.Constant) and sl.elts[0].value is Ellipsis and isinstance(sl.elts[1], ast.Name) and sl.elts[1].id == lv:
                    ok_idx = True
                elif isinstance(sl, ast.Name) and sl.id == lv:
                    ok_idx = False  # u[idx] would select a row of a 2-D array, not a coordinate
        R.check("C16.b", "only designated coordinates are written (last-axis index = loop variable of the index list)", ok_idx, bmap, st.stmt,
                msg=f"{bmap.short}: `{unparse(t)}` does not address exactly the designated coordinate on the last axis; other coordinates can change", key=f"store-index:{norm_text(t)}")
        # the value read is the same coordinate
        reads = [s for s in ast.walk(st.stmt.value)] if isinstance(st.stmt, ast.Assign) else []
    # no whole-array write: the working copy only changes through the designated subscript stores above --
    # no `out=<work>` / in-place method, no re-binding of the working name to a transformed array, no slice store
    whole = []
    first_copy = copies[0] if copies else None
    for n in cfg.stmt_nodes():
        if n.ast is None or n.kind not in ("stmt",):
            continue
        for c in calls_in_node(n):
            if any(k.arg == "out" and isinstance(k.value, ast.Name) and k.value.id == uparam for k in c.keywords):
                whole.append((n, c))
            if isinstance(c.func, ast.Attribute) and isinstance(c.func.value, ast.Name) and c.func.value.id == uparam and c.func.attr in ("clip", "fill", "sort", "put", "itemset", "resize", "partition", "round") \
                    and (c.func.attr in ("fill", "sort", "put", "itemset", "resize", "partition") or any(k.arg == "out" for k in c.keywords)):
                whole.append((n, c))
        st_ = n.stmt
        if isinstance(st_, ast.AugAssign) and isinstance(st_.target, ast.Name) and st_.target.id == uparam:
            whole.append((n, st_))
        if isinstance(st_, ast.Assign) and isinstance(st_.targets[0], ast.Name) and st_.targets[0].id == uparam and n not in copies:
            whole.append((n, st_))
        if isinstance(st_, ast.Assign) and isinstance(st_.targets[0], ast.Name) and st_.targets[0].id == uparam and n in copies and n is not first_copy:
            v = st_.value
            is_copy = fresh_copy_source(lambda c_: ctx.res.external_name(bmap, c_), v) is not None
            if not is_copy:
                whole.append((n, st_))
        if isinstance(st_, (ast.Assign, ast.AugAssign)):
            t_ = st_.targets[0] if isinstance(st_, ast.Assign) else st_.target
            if isinstance(t_, ast.Subscript) and isinstance(t_.value, ast.Name) and t_.value.id == uparam:
                sl_ = t_.slice
                if isinstance(sl_, ast.Slice) or (isinstance(sl_, ast.Constant) and sl_.value is Ellipsis) or (isinstance(sl_, ast.Tuple) and all(isinstance(e, ast.Slice) or (isinstance(e, ast.Constant) and e.value is Ellipsis) for e in sl_.elts)):
                    whole.append((n, st_))
    for (n, c) in whole:
        R.check("C16.b", "the working copy changes only through designated-coordinate stores", False, bmap, c,
                msg=f"{bmap.short}: `{unparse(c)[:60]}` rewrites the whole working array: coordinates without a boundary condition are changed too (an out-of-range strict coordinate is "
                    f"silently moved into [0,1] and then passes the bounds check)", key=f"whole-array-write:{norm_text(c)[:40]}")
    if not whole:
        R.check("C16.b", "the working copy changes only through designated-coordinate stores", True, bmap, bmap.node, key="whole-array-write")
    rets = [n for n in cfg.stmt_nodes() if n.kind == "stmt" and isinstance(n.stmt, ast.Return)]
    for rn in rets:
        rv = rn.stmt.value
        ok = isinstance(rv, ast.Name) and rv.id == uparam and any(cfg.dominates(c.id, rn.id) for c in copies)
        # a view of the working copy restored to the input's shape is the same thing
        if not ok and isinstance(rv, ast.Call) and isinstance(rv.func, ast.Attribute) and rv.func.attr == "reshape" and rv.args and norm_text(rv.args[0]) in (f"{inparam}.shape", f"np.shape({inparam})"):
            ok = True
        extra = ""
        if isinstance(rv, ast.Call) and dotted(rv.func).split(".")[-1] == "squeeze" and not any(k.arg == "axis" for k in rv.keywords) and len(rv.args) < 2:
            extra = ": an axis-less squeeze drops *every* length-1 axis, so a batch of one walker or a one-parameter problem comes back with a different rank than it went in"
        R.check("C16.b", "the mapped copy is returned (in the shape of the input)", ok, bmap, rn.stmt, msg=f"{bmap.short}: returns `{unparse(rv)}`{extra}", key="return-copy")
    # each fold loop runs exactly when its list is given
    from ..util import conds_holding_at as _cha3

    for lp in [n for n in cfg.stmt_nodes() if n.kind == "for"]:
        if isinstance(lp.stmt.iter, ast.Name) and lp.stmt.iter.id in bmap.params[1:]:
            nm_ = lp.stmt.iter.id
            bad = [(norm_text(a), p) for (t, pol) in _cha3(cfg, lp) for (a, p) in split_cond(t, pol)
                   if (norm_text(a) == f"{nm_}isnotNone" and p is False) or (norm_text(a) == f"{nm_}isNone" and p is True)]
            R.check("C16.b", f"the `{nm_}` fold runs when `{nm_}` is given", not bad, bmap, lp.stmt,
                    msg=f"{bmap.short}: the loop over `{nm_}` is reachable only when `{nm_}` is None (inverted guard): designated coordinates are never folded", key=f"fold-guard:{nm_}")


def rule_c(ctx: Context, R: Reporter, pred: FuncInfo):
    flow = flow_of(pred.node)
    cfg = flow.cfg
    uparam, pper, pref = pred.params[0], pred.params[1], pred.params[2]
    rs = ExprResolver(pred.node)
    # strict index set
    strict_defs = []
    for n in cfg.stmt_nodes():
        if n.kind == "stmt" and isinstance(n.stmt, ast.Assign) and isinstance(n.stmt.targets[0], ast.Name):
            for b in ast.walk(n.stmt.value):
                if isinstance(b, ast.BinOp) and isinstance(b.op, ast.Sub) and "range" in norm_text(rs.resolve(b.left, n)):
                    strict_defs.append((n, b))
                elif isinstance(b, ast.Call) and (ctx.res.external_name(pred, b) or "") == "numpy.setdiff1d" and len(b.args) >= 2 and "range" in norm_text(rs.resolve(b.args[0], n)):
                    # set difference spelled with numpy (duplicates in the second operand are harmless)
                    strict_defs.append((n, ast.BinOp(left=b.args[0], op=ast.Sub(), right=b.args[1])))
    R.floor("C16.c", "definitions of the strict index set", len(strict_defs), 1)
    for (n, b) in strict_defs:
        left = norm_text(rs.resolve(b.left, n))
        all_ok = "range(" in left and "shape[-1]" in left
        # special set receives both lists via update(...) guarded by is-not-None
        ups = set()
        if isinstance(b.right, ast.Name):
            special_name = b.right.id
            def _src(e, at, depth=0):
                """the designated-list parameter a set operand stands for: the name itself, or a set/frozenset/list/tuple
                of it, possibly through a local that is None exactly when the list is absent"""
                while isinstance(e, ast.Call) and len(e.args) == 1 and not e.keywords and (dotted(e.func) in ("set", "frozenset", "list", "tuple", "sorted") or (ctx.res.external_name(pred, e) or "") in ("numpy.asarray", "numpy.array", "numpy.unique")):
                    e = e.args[0]
                if not isinstance(e, ast.Name):
                    return None
                if e.id in (pper, pref):
                    return e.id
                if depth > 3 or at is None:
                    return None
                outs = set()
                for d in flow.reaching(at, e.id):
                    v = select_path(d.value, d.path) if (d.path and d.value is not None) else d.value
                    if v is None or d.node is None:
                        return None
                    if isinstance(v, ast.Constant) and v.value is None:
                        continue
                    if isinstance(v, ast.IfExp):
                        arms = [a for a in (v.body, v.orelse) if not (isinstance(a, ast.Constant) and a.value is None)]
                        if len(arms) != 1:
                            return None
                        v = arms[0]
                    outs.add(_src(v, d.node, depth + 1))
                return outs.pop() if len(outs) == 1 else None

            for nd_ in cfg.stmt_nodes():
                if nd_.kind != "stmt":
                    continue
                for c in [x for x in ast.walk(nd_.stmt) if isinstance(x, ast.Call)]:
                    if isinstance(c.func, ast.Attribute) and c.func.attr in ("update", "union", "extend") and isinstance(c.func.value, ast.Name) and c.func.value.id == special_name and c.args:
                        for a_ in c.args:
                            s_ = _src(a_, nd_)
                            if s_:
                                ups.add(s_)
                st_ = nd_.stmt
                if isinstance(st_, ast.AugAssign) and isinstance(st_.op, ast.BitOr) and isinstance(st_.target, ast.Name) and st_.target.id == special_name:
                    s_ = _src(st_.value, nd_)
                    if s_:
                        ups.add(s_)
                if isinstance(st_, ast.Assign) and isinstance(st_.targets[0], ast.Name) and st_.targets[0].id == special_name and isinstance(st_.value, ast.BinOp) and isinstance(st_.value.op, ast.BitOr):
                    for a_ in (st_.value.left, st_.value.right):
                        s_ = _src(a_, nd_)
                        if s_:
                            ups.add(s_)
        else:
            ups = {x.id for x in ast.walk(b.right) if isinstance(x, ast.Name)} & {pper, pref}
        both = {pper, pref} <= ups
        R.check("C16.c", "strict set = all coordinates minus (periodic | reflective)", all_ok and both, pred, n.stmt,
                msg=f"{pred.short}: strict index set `{unparse(b)[:70]}` with special set built from {sorted(ups)}; expected range(shape[-1]) minus both designated lists",
                key="strict-set")
    # every non-constant return: conjunction of >= 0 and <= 1 on the same slice
    n_ret = 0
    for rn in cfg.stmt_nodes():
        if rn.kind != "stmt" or not isinstance(rn.stmt, ast.Return) or rn.stmt.value is None:
            continue
        v = rs.resolve(rn.stmt.value, rn)
        if isinstance(v, ast.Constant) or (isinstance(v, ast.Call) and (ctx.res.external_name(pred, v) or "") in ("numpy.ones",)):
            # trivially-true returns are only legal when the strict set is empty
            from ..util import conds_holding_at as _cha

            ok = False
            for (t, pol) in _cha(cfg, rn):
                tt = norm_text(t)
                if pol and "len(" in tt and tt.endswith("==0"):
                    ok = True
                if (not pol) and (isinstance(t, ast.Name) or tt.startswith("len(")) and "strict" in tt or ((not pol) and isinstance(t, ast.Name)):
                    # `if not strict_indices:` -> fact (strict_indices, False)
                    ds = flow.reaching(rn, t.id) if isinstance(t, ast.Name) else []
                    if isinstance(t, ast.Name) and ds and all(d.value is not None and "range" in norm_text(rs.resolve(d.value, d.node)) for d in ds):
                        ok = True
            R.check("C16.c", "an unconditional `valid` result only when no strict coordinate exists", ok and (const_value(v) is True or not isinstance(v, ast.Constant)), pred, rn.stmt,
                    msg=f"{pred.short}: `{unparse(rn.stmt)}` accepts every point although strict coordinates may exist", key=f"trivial-return:{norm_text(v)[:30]}")
            continue
        n_ret += 1
        comps = [c for c in ast.walk(v) if isinstance(c, ast.Compare) and len(c.ops) == 1]
        lows = [c for c in comps if isinstance(c.ops[0], ast.GtE) and const_value(c.comparators[0]) in (0, 0.0)]
        highs = [c for c in comps if isinstance(c.ops[0], ast.LtE) and const_value(c.comparators[0]) in (1, 1.0)]
        same = bool(lows) and bool(highs) and norm_text(lows[0].left) == norm_text(highs[0].left)
        conj = (isinstance(v, ast.BoolOp) and isinstance(v.op, ast.And)) or (isinstance(v, ast.BinOp) and isinstance(v.op, ast.BitAnd))
        only = len(comps) == 2
        R.check("C16.c", "bounds predicate conjoins `>= 0` and `<= 1` on the same strict slice", same and conj and only, pred, rn.stmt,
                msg=f"{pred.short}: `{unparse(v)[:80]}` is not the two-sided closed test (x >= 0) & (x <= 1) on one slice "
                    f"(lower tests {[unparse(c) for c in lows]}, upper tests {[unparse(c) for c in highs]}, other comparisons {len(comps) - len(lows) - len(highs)})",
                key=f"two-sided:{'1d' if 'axis' not in norm_text(v) else '2d'}")
        if same:
            sl = lows[0].left
            rsl = rs.resolve(sl, rn)
            uses_strict = any(isinstance(s, ast.Subscript) and isinstance(s.value, ast.Name) and s.value.id == uparam for s in ast.walk(rsl))
            R.check("C16.c", "the tested slice is the input restricted to the strict indices", uses_strict, pred, rn.stmt,
                    msg=f"{pred.short}: tested value `{unparse(rsl)[:60]}` is not {uparam}[..., strict_indices]", key=f"slice:{'1d' if 'axis' not in norm_text(v) else '2d'}")
    R.floor("C16.c", "comparison returns (1-D and 2-D paths)", n_ret, 2)
    # rank dispatch: a full reduction (no axis) is the answer for a single point only; batches reduce over the last
    # axis and get one flag per row; a trivially-true batch answer has one entry per row
    from ..util import conds_holding_at as _cha2

    for rn in cfg.stmt_nodes():
        if rn.kind != "stmt" or not isinstance(rn.stmt, ast.Return) or rn.stmt.value is None:
            continue
        v = rs.resolve(rn.stmt.value, rn)
        facts = []
        for (t, pol) in _cha2(cfg, rn):
            tn = flow.node_containing(t) if hasattr(flow, "node_containing") else None
            rt = rs.resolve(t, tn if tn is not None else rn)  # local boolean names (`single_point = u.ndim == 1`) are inlined
            for (a, p) in split_cond(rt, pol):
                facts.append((norm_text(a), p))
        one_d = any((txt.endswith(".ndim==1") and p) or (txt.endswith(".ndim!=1") and not p) or (txt.endswith(".ndim>1") and not p) or (txt.endswith(".ndim>=2") and not p) for (txt, p) in facts)
        reds = [c for c in ast.walk(v) if isinstance(c, ast.Call) and (ctx.res.external_name(pred, c) or "") in ("numpy.all", "numpy.any", "numpy.logical_and.reduce")]
        for c in reds:
            ax = call_arg(c, 1, "axis")
            axv = None
            if ax is not None:
                axv = const_value(ax) if not isinstance(ax, ast.UnaryOp) else (-const_value(ax.operand) if isinstance(ax.op, ast.USub) and const_value(ax.operand) is not None else None)
            if ax is None:
                R.check("C16.c", "a reduction over all axes answers for a single point only", one_d, pred, c,
                        msg=f"{pred.short}: `{unparse(c)[:50]}` reduces over every axis on a path where the input may be a batch: one flag for all rows instead of one per row "
                            f"(path facts {facts})", key=f"full-reduction-batch:{norm_text(c)[:30]}")
            else:
                R.check("C16.c", "batch reductions run over the coordinate (last) axis", axv in (-1, 1), pred, c,
                        msg=f"{pred.short}: `{unparse(c)[:50]}` reduces over axis {unparse(ax)}, not over the coordinates of each point", key=f"reduction-axis:{norm_text(c)[:30]}")
        if isinstance(v, ast.Constant) and v.value is True:
            R.check("C16.c", "a scalar all-valid answer is given for a single point only", one_d, pred, rn.stmt,
                    msg=f"{pred.short}: `return True` on a path where the input may be a batch (path facts {facts}): the caller indexes the answer per row", key="trivial-scalar-rank")
        if isinstance(v, ast.Call) and (ctx.res.external_name(pred, v) or "") == "numpy.ones" and v.args:
            R.check("C16.c", "a per-row all-valid answer is given for batches only", not one_d, pred, rn.stmt,
                    msg=f"{pred.short}: `{unparse(v)[:40]}` is returned for a single point (u.shape[0] is then the number of coordinates)", key="trivial-batch-rank")
            ok = norm_text(v.args[0]) in (f"{uparam}.shape[0]", f"len({uparam})", f"{uparam}.shape[:-1]")
            R.check("C16.c", "the all-valid batch answer has one entry per row", ok, pred, v,
                    msg=f"{pred.short}: `{unparse(v)[:50]}` does not have {uparam}.shape[0] entries", key="trivial-batch-length")
    # the designated lists are consulted exactly when they are given
    for nd in cfg.stmt_nodes():
        uses = None
        if nd.kind == "for" and isinstance(nd.stmt.iter, ast.Name) and nd.stmt.iter.id in (pper, pref):
            uses = nd.stmt.iter.id
        elif nd.kind == "stmt":
            for c in ast.walk(nd.stmt):
                if isinstance(c, ast.Call) and isinstance(c.func, ast.Attribute) and c.func.attr in ("update", "extend", "union") and c.args and isinstance(c.args[0], ast.Name) and c.args[0].id in (pper, pref):
                    uses = c.args[0].id
        if uses is None:
            continue
        bad = [(txt, p) for (t, pol) in _cha2(cfg, nd) for (a, p) in split_cond(t, pol) for txt in [norm_text(a)]
               if (txt == f"{uses}isnotNone" and p is False) or (txt == f"{uses}isNone" and p is True)]
        R.check("C16.c", f"`{uses}` is consulted when it is given", not bad, pred, nd.ast if nd.ast is not None else pred.node,
                msg=f"{pred.short}: `{unparse(nd.ast)[:50] if nd.ast is not None else ''}` runs only when `{uses}` is None (inverted guard): designated coordinates are then bounds-checked "
                    f"as strict ones and a given list is ignored", key=f"designated-guard:{uses}")


# ------------------------------------------------------------------ C16.e
VALUE_PRESERVING = {"numpy.asarray", "numpy.array", "numpy.atleast_1d", "numpy.unique", "numpy.sort", "numpy.ravel", "builtins.list", "builtins.tuple", "builtins.sorted", "builtins.set",
                    "builtins.frozenset", "numpy.asanyarray", "numpy.copy"}
VALUE_PRESERVING_METHODS = {"ravel", "astype", "flatten", "tolist", "copy", "reshape"}


def rule_e(ctx: Context, R: Reporter, bmap: FuncInfo, pred: FuncInfo):
    """C16.e  the designated index sets reach the boundary helpers as the user gave them: tracing the periodic /
    reflective arguments of every library call of the two helpers back to the public constructor, the
    value passes only through parameter passing, attribute stores and conversions that keep the set of
    indices (asarray / list / unique / astype ...).  A helper on the way may map its argument to None only
    under a test that the argument is None or empty; any other rewriting (a mask interpretation, a
    filter, a truthiness test of the values) changes which coordinates are folded."""
    from ..provenance import Origin, Tracer
    from ..util import conds_holding_at, is_none_test

    problems: List[Tuple[FuncInfo, ast.AST, str, str]] = []

    def _emptiness_fact(a, p_, names=None) -> bool:
        nt = is_none_test(a)
        if nt is not None and nt[1] == p_:
            return True
        ta = norm_text(a)
        if isinstance(a, ast.Compare) and len(a.ops) == 1 and const_value(a.comparators[0]) == 0 and (ta.startswith("len(") or ".size" in ta) and \
                ((isinstance(a.ops[0], ast.Eq) and p_) or (isinstance(a.ops[0], (ast.NotEq, ast.Gt)) and not p_)):
            return True
        if isinstance(a, ast.Call) and dotted(a.func) == "len" and not p_:
            return True
        if isinstance(a, ast.Name) and not p_ and (names is None or a.id in names):
            return True
        return False

    class IndexTracer(Tracer):
        _stack: List[Tuple[FuncInfo, ast.Call, FuncInfo]] = []

        def _param_origins(self, fi, pname, chain, depth, seen):
            # context sensitivity for helpers entered from a specific call site
            if self._stack and self._stack[-1][0] is fi:
                (_, call, caller) = self._stack[-1]
                params = list(fi.params)
                offset = 1 if (fi.cls is not None and not fi.is_staticmethod and params and params[0] in ("self", "cls")) else 0
                idx = params.index(pname) - offset if pname in params else None
                arg = call_arg(call, idx, pname) if idx is not None else None
                if arg is not None:
                    saved = self._stack.pop()
                    try:
                        return self.origins(caller, arg, flow_of(caller.node).node_containing(call), chain, depth + 1, seen)
                    finally:
                        self._stack.append(saved)
            return Tracer._param_origins(self, fi, pname, chain, depth, seen)

        def _origins(self, fi, e, at, chain, depth, seen):
            if isinstance(e, ast.Constant) and e.value is None and at is not None:
                fl = flow_of(fi.node)
                facts = []
                for (tt, pol) in conds_holding_at(fl.cfg, at):
                    facts += split_cond(tt, pol)
                bad = [(a, p_) for (a, p_) in facts if not _emptiness_fact(a, p_) and is_none_test(a) is None]
                if bad:
                    problems.append((fi, e, f"{fi.short} replaces the index list by None under {[(unparse(a)[:30], p_) for (a, p_) in bad]} (not a test that the list is None or empty): "
                                            f"a valid list such as [0] loses its boundary condition", f"list-dropped:{fi.short}"))
            if isinstance(e, ast.IfExp):
                # `x if C else None`: the None branch must be an emptiness / None test of the list
                out_ = []
                for (br, pol) in ((e.body, True), (e.orelse, False)):
                    if isinstance(br, ast.Constant) and br.value is None:
                        facts = split_cond(e.test, pol)
                        bad = [(a, p_) for (a, p_) in facts if not _emptiness_fact(a, p_) and is_none_test(a) is None]
                        if bad:
                            problems.append((fi, e, f"{fi.short} replaces the index list by None under {[(unparse(a)[:30], p_) for (a, p_) in bad]} (not a test that the list is None or empty): "
                                                    f"a valid list such as [0] loses its boundary condition", f"list-dropped:{fi.short}"))
                        out_.append(Origin("none", "None", fi, br, chain))
                    else:
                        out_ += self.origins(fi, br, at, chain, depth + 1, seen)
                return out_
            if isinstance(e, ast.Call):
                name = self.ctx.res.external_name(fi, e) or ""
                if name in VALUE_PRESERVING and e.args:
                    return self.origins(fi, e.args[0], at, chain, depth + 1, seen)
                if isinstance(e.func, ast.Attribute) and e.func.attr in VALUE_PRESERVING_METHODS and not name.startswith(("numpy.", "builtins.")):
                    return self.origins(fi, e.func.value, at, chain, depth + 1, seen)
                tgts = [t for t in self.ctx.res.call_targets(fi, e) if isinstance(t, FuncInfo)]
                if tgts:
                    out = []
                    for t in tgts:
                        out += self._through_helper(fi, e, t, chain, depth, seen)
                    return out
                problems.append((fi, e, f"`{unparse(e)[:60]}` rewrites the index list", f"rewrite:{fi.short}:{norm_text(e.func)[:30]}"))
                return [Origin("call", name or unparse(e.func)[:40], fi, e, chain)]
            if isinstance(e, (ast.ListComp, ast.GeneratorExp, ast.SetComp)):
                filt = any(g.ifs for g in e.generators)
                identity = len(e.generators) == 1 and isinstance(e.generators[0].target, ast.Name) and not filt and (
                    norm_text(e.elt) == e.generators[0].target.id or (isinstance(e.elt, ast.Call) and dotted(e.elt.func) == "int" and e.elt.args and norm_text(e.elt.args[0]) == e.generators[0].target.id))
                if identity:
                    return self.origins(fi, e.generators[0].iter, at, chain, depth + 1, seen)
                problems.append((fi, e, f"`{unparse(e)[:60]}` builds a different index list (filter / positions instead of the given values)", f"rewrite:{fi.short}:comprehension"))
                return [Origin("call", "comprehension", fi, e, chain)]
            if isinstance(e, ast.BinOp):
                problems.append((fi, e, f"`{unparse(e)[:60]}` computes new indices", f"rewrite:{fi.short}:arith"))
                return [Origin("call", "arithmetic", fi, e, chain)]
            return Tracer._origins(self, fi, e, at, chain, depth, seen)

        def _through_helper(self, fi, call, t, chain, depth, seen):
            out = []
            fl = flow_of(t.node)
            params = [p_ for p_ in t.params if p_ not in ("self", "cls")]
            self._stack.append((t, call, fi))
            try:
                return self._through_helper2(fi, call, t, chain, depth, seen, fl, params)
            finally:
                self._stack.pop()

        def _through_helper2(self, fi, call, t, chain, depth, seen, fl, params):
            out = []
            for nd in fl.cfg.stmt_nodes():
                if nd.kind != "stmt" or not isinstance(nd.stmt, ast.Return):
                    continue
                v = nd.stmt.value
                if v is None or (isinstance(v, ast.Constant) and v.value is None):
                    # None may be returned only where the argument is None / empty
                    facts = []
                    for (tt, pol) in conds_holding_at(fl.cfg, nd):
                        facts += split_cond(tt, pol)
                    okn = any(_emptiness_fact(a, p_, params) for (a, p_) in facts) and all(_emptiness_fact(a, p_) or is_none_test(a) is not None for (a, p_) in facts)
                    if not okn:
                        problems.append((t, nd.stmt, f"{t.short} maps a given index list to None under {[(unparse(a)[:30], p_) for (a, p_) in facts]} (not a test that the list is None or empty): "
                                                     f"a valid list such as [0] loses its boundary condition", f"helper-drops-list:{t.short}"))
                    continue
                out += self.origins(t, v, nd, chain + (f"{t.short}()",), depth + 1, seen)
            return out

    T_ = IndexTracer(ctx)
    n = 0
    for fi in ctx.prog.functions.values():
        if fi in (bmap, pred):
            continue
        for (call, tg) in ctx.cg.sites.get(fi.qualname, []):
            if not any(t is bmap or t is pred for t in tg):
                continue
            at = flow_of(fi.node).node_containing(call)
            for pos, pname in ((1, "periodic"), (2, "reflective")):
                arg = call_arg(call, pos, pname)
                if arg is None:
                    continue
                n += 1
                before = len(problems)
                origs = T_.origins(fi, arg, at)
                lits = [o for o in origs if o.kind == "literal"]
                for o in lits:
                    problems.append((o.func or fi, o.node or call, f"a literal `{o.detail}` reaches the `{pname}` argument", f"literal:{pname}"))
                # name-crossing along the chain: the value handed in as `periodic` must originate from the public `periodic`
                users = [o for o in origs if o.kind == "user"]
                crossed = [o for o in users if ("periodic" in o.detail or "reflective" in o.detail) and pname not in o.detail]
                for o in crossed:
                    problems.append((fi, call, f"the `{pname}` argument originates from {o.detail}", f"crossed:{pname}"))
                new = problems[before:]
                R.check("C16.e", f"the `{pname}` index set reaches `{unparse(call.func)}` unaltered", not new, fi, call,
                        msg=f"{fi.short}: the `{pname}` argument of `{unparse(call)[:50]}` is not the user's index list: " + "; ".join(sorted({w for (_, _, w, _) in new}))[:400],
                        key=f"index-plumbing:{fi.short}:{pname}:" + ",".join(sorted({k for (_, _, _, k) in new}))[:80])
    R.floor("C16.e", "index-list arguments of boundary-helper calls", n, 4)


def rule_f(ctx: Context, R: Reporter, bmap: FuncInfo, pred: FuncInfo):
    """C16.f  the helpers are functions of their arguments only: neither mutates in place an object that is shared
    across calls (the result of an lru_cache'd helper), so the answer for one call cannot depend on which index
    sets earlier calls designated."""
    from ..util import cached_result_mutations

    n = 0
    for f in (bmap, pred):
        for (node, cf) in cached_result_mutations(ctx, f):
            n += 1
            R.check("C16.f", "no cached (shared) object is mutated in place by the boundary helpers", False, f, node,
                    msg=f"{f.short}: `{unparse(node)[:60]}` mutates the object returned by the cached helper {cf.short}: the change persists in the cache, so later calls with other "
                        f"periodic / reflective sets start from a coordinate set that earlier calls have already shrunk (coordinates silently stop being checked)",
                    key=f"cached-mutation:{f.short}")
    # ... nor a mutable default argument (one object for all calls) of a function they run through
    from ..util import mutable_default_mutations

    scanned = 0
    for g in ctx.cg.reachable([bmap, pred]):
        scanned += 1
        for (param, d, node) in mutable_default_mutations(g.node):
            n += 1
            R.check("C16.f", "no mutable default argument is modified by the boundary helpers", False, g, node,
                    msg=f"{g.short}: `{unparse(node)[:60]}` modifies the default `{param}={unparse(d)}`, which is one object shared by every call: index sets designated in earlier "
                        f"calls are still in it, so a later call with other periodic / reflective sets exempts (or folds) coordinates it was not asked to",
                    key=f"cached-mutation:default:{g.short}:{param}")
    # ... nor a process-lifetime memo whose key does not determine everything the memoised value was computed from
    from ..util import memo_key_gaps, process_lifetime_memos

    for g in ctx.cg.reachable([bmap, pred]):
        for (st, container, key, value) in process_lifetime_memos(g.node, set(g.module.constants), g.cls.name if g.cls else None):
            gaps = memo_key_gaps(g.node, key, value)
            n += 1 if gaps else 0
            R.check("C16.f", "a process-lifetime memo of the boundary helpers is keyed by everything its value depends on", not gaps, g, st,
                    msg=f"{g.short}: `{unparse(st)[:60]}` memoises in `{container}` (which lives as long as the process) a value computed from {gaps}, but the key `{unparse(key)[:40]}` "
                        f"does not determine {'them' if len(gaps) > 1 else 'it'} (only a count / shape, or not at all): a later call with other index sets of the same size gets the "
                        f"first caller's coordinate set, so coordinates silently stop being checked / folded", key=f"cached-mutation:memo-key:{g.short}")
    R.analysed["C16.f:functions scanned for shared mutable defaults"] = scanned
    R.check("C16.f", "the boundary helpers keep no state between calls", n == 0, bmap, bmap.node, key="stateless")


def rule_g(ctx: Context, R: Reporter, bmap: FuncInfo, pred: FuncInfo):
    """C16.g  the designated index lists are *lists of coordinates*:
      * they are tested for presence with `is None` / `len()`, never through the truth of their elements --
        `np.any(periodic)`, `any(reflective)`, `if periodic:` on an array are false for the list `[0]`, so a boundary
        condition on coordinate 0 alone is taken for "none requested";
      * they are read, never modified: no in-place change (`+=`, append / extend / insert / remove / sort, item store) of
        a periodic / reflective list or of a name that may be bound to one (`exempt = self.periodic if ... else []`):
        the list object is shared with the configuration and the other steps, so folding and exemption silently change
        for everybody."""
    mod = bmap.module
    IDX = ("periodic", "reflective")

    def is_idx(e) -> bool:
        return (isinstance(e, ast.Name) and e.id in IDX) or (isinstance(e, ast.Attribute) and e.attr in IDX)

    n = 0
    for fi in ctx.prog.functions.values():
        if fi.module is not mod:
            continue
        n += 1
        # names / attributes that may be bound to an index list as a whole
        alias = set()
        for x in walk_no_nested(fi.node):
            if isinstance(x, ast.Assign) and len(x.targets) == 1:
                v = x.value
                cands = [v] + ([v.body, v.orelse] if isinstance(v, ast.IfExp) else []) + (list(v.values) if isinstance(v, ast.BoolOp) else [])
                if any(is_idx(c) for c in cands):
                    t = x.targets[0]
                    if isinstance(t, ast.Name) and t.id not in IDX:
                        alias.add(t.id)
                    elif isinstance(t, ast.Attribute) and t.attr not in IDX:
                        alias.add(t.attr)

        def is_list_ref(e) -> bool:
            return is_idx(e) or (isinstance(e, ast.Name) and e.id in alias) or (isinstance(e, ast.Attribute) and e.attr in alias)

        for x in walk_no_nested(fi.node):
            if isinstance(x, ast.Call):
                nm = ctx.res.external_name(fi, x) or dotted(x.func)
                if nm in ("numpy.any", "numpy.all", "builtins.any", "builtins.all", "any", "all", "numpy.count_nonzero", "builtins.bool", "bool") and x.args and is_list_ref(x.args[0]):
                    R.check("C16.g", "index lists are tested for presence, not for the truth of their elements", False, fi, x,
                            msg=f"{fi.short}: `{unparse(x)[:50]}` tests the truth of the *indices*: it is false for `[0]`, so a boundary condition on parameter 0 alone counts as absent and "
                                f"that coordinate is neither folded nor (in the bounds check) exempted consistently", key=f"index-truthiness:{fi.short}")
                if isinstance(x.func, ast.Attribute) and x.func.attr in ("append", "extend", "insert", "remove", "sort", "pop", "clear", "reverse") and is_list_ref(x.func.value):
                    R.check("C16.g", "index lists are never modified in place", False, fi, x,
                            msg=f"{fi.short}: `{unparse(x)[:60]}` modifies an index list (or a name that can be bound to one) in place: the list object is shared with the configuration, "
                                f"the mutation step and the other helper, so which coordinates are folded / exempted changes behind their back", key=f"index-list-mutated:{fi.short}")
            if isinstance(x, ast.AugAssign) and is_list_ref(x.target):
                R.check("C16.g", "index lists are never modified in place", False, fi, x,
                        msg=f"{fi.short}: `{unparse(x)[:60]}` extends an index list (or a name that can be bound to one) in place: when it is bound to the periodic list, the reflective "
                            f"indices are appended to the caller's periodic list and those coordinates are wrapped instead of folded from then on", key=f"index-list-mutated:{fi.short}")
            if isinstance(x, ast.Assign):
                for t in x.targets:
                    if isinstance(t, ast.Subscript) and is_list_ref(t.value):
                        R.check("C16.g", "index lists are never modified in place", False, fi, x,
                                msg=f"{fi.short}: `{unparse(x)[:60]}` stores into an index list", key=f"index-list-mutated:{fi.short}")
            if isinstance(x, (ast.If, ast.While, ast.IfExp)) and is_idx(x.test):
                R.check("C16.g", "index lists are tested for presence, not for the truth of their elements", False, fi, x.test,
                        msg=f"{fi.short}: `if {unparse(x.test)}` is ambiguous / raises for an index *array* and conflates the empty list with None", key=f"index-truthiness:{fi.short}")
    R.check("C16.g", "functions of the kernel module scanned for index-list misuse", True, None, None, key="index-list-scan")
    R.floor("C16.g", "functions of the kernel module", n, 15)


def run(ctx: Context, R: Reporter):
    bmap, pred = bounds_helpers(ctx)
    R.guard(rule_g, ctx, R, bmap, pred)
    R.guard(rule_f, ctx, R, bmap, pred)
    R.guard(rule_e, ctx, R, bmap, pred)
    R.guard(rule_a, ctx, R, bmap)
    R.guard(rule_b, ctx, R, bmap)
    R.guard(rule_c, ctx, R, pred)
    R.guard(rule_d, ctx, R, bmap)


def variants():
    from ..variants import Variant, alpha_rename, chain, delete_stmt, insert_after, insert_before, replace_expr, replace_stmt

    mc = "tempest/mcmc.py"
    f = "apply_boundary_conditions"
    g = "check_bounds"
    return [
        Variant("d-shifted-remainder", "bad", replace_stmt(mc, f, "remainder = val - n_reflect", "remainder = (val + 1.0) - (n_reflect + 1.0)"), ["C16.d"], quick=True),
        Variant("a-astype-int", "bad", replace_expr(mc, f, "np.floor(val)", "np.floor(val).astype(int)"), ["C16.a"], quick=True),
        Variant("b-no-copy", "bad", delete_stmt(mc, f, "u = u.copy()"), ["C16.b"], quick=True),
        # what counts as the fresh working copy (aliases of the caller's array must be reported)
        Variant("b-benign-working-copy-np-array", "benign", replace_stmt(mc, f, "u = u.copy()", "u = np.array(u)")),
        Variant("b-benign-working-copy-np-copy", "benign", replace_stmt(mc, f, "u = u.copy()", "u = np.copy(u)")),
        Variant("b-benign-working-copy-np-array-copy-true", "benign", replace_stmt(mc, f, "u = u.copy()", "u = np.array(u, copy=True)")),
        Variant("b-benign-working-copy-astype-default", "benign", replace_stmt(mc, f, "u = u.copy()", "u = u.astype(float)")),
        Variant("b-working-copy-is-alias-np-asarray", "bad", replace_stmt(mc, f, "u = u.copy()", "u = np.asarray(u)"), ["C16.b"]),
        Variant("b-working-copy-is-alias-np-array-copy-false", "bad", replace_stmt(mc, f, "u = u.copy()", "u = np.array(u, copy=False)"), ["C16.b"]),
        Variant("b-working-copy-is-alias-view", "bad", replace_stmt(mc, f, "u = u.copy()", "u = u.view()"), ["C16.b"]),
        Variant("b-working-copy-is-alias-ellipsis-slice", "bad", replace_stmt(mc, f, "u = u.copy()", "u = u[...]"), ["C16.b"]),
        Variant("b-working-copy-is-alias-reshape-same", "bad", replace_stmt(mc, f, "u = u.copy()", "u = u.reshape(u.shape)"), ["C16.b"]),
        Variant("b-working-copy-is-alias-astype-copy-false", "bad", replace_stmt(mc, f, "u = u.copy()", "u = u.astype(u.dtype, copy=False)"), ["C16.b"]),
        Variant("b-working-copy-is-alias-ascontiguous", "bad", replace_stmt(mc, f, "u = u.copy()", "u = np.ascontiguousarray(u)"), ["C16.b"]),
        Variant("b-working-copy-is-alias-atleast-1d", "bad", replace_stmt(mc, f, "u = u.copy()", "u = np.atleast_1d(u)"), ["C16.b"]),
        Variant("b-row-index", "bad", replace_stmt(mc, f, "u[..., idx] = u[..., idx] % 1.0", "u[idx] = u[idx] % 1.0"), ["C16.b", "ANALYSIS-ERROR"]),
        Variant("c-one-sided-1d", "bad", replace_expr(mc, g, "np.all(u_strict >= 0) and np.all(u_strict <= 1)", "np.all(u_strict <= 1)"), ["C16.c"], quick=True),
        Variant("c-open-upper-2d", "bad", replace_expr(mc, g, "np.all(u_strict <= 1, axis=-1)", "np.all(u_strict < 1, axis=-1)"), ["C16.c"]),
        Variant("c-forget-reflective", "bad", replace_stmt(mc, g, "special_indices.update(reflective)", "pass"), ["C16.c"]),
        # the special set built with |= / | over set-like views of the lists, through locals that are None when the list is absent
        Variant("c-benign-special-set-ior-frozenset", "benign", chain(
            replace_stmt(mc, g, "special_indices.update(periodic)", "special_indices |= frozenset(periodic)"),
            replace_stmt(mc, g, "special_indices.update(reflective)", "special_indices |= set(reflective)")), quick=True),
        Variant("c-benign-special-set-through-optional-keys", "benign", chain(
            insert_before(mc, g, "special_indices = set()", "pkey = None if periodic is None else frozenset(periodic)\nrkey = None if reflective is None else frozenset(reflective)"),
            replace_stmt(mc, g, "special_indices.update(periodic)", "special_indices = special_indices | pkey"),
            replace_stmt(mc, g, "special_indices.update(reflective)", "special_indices |= rkey"))),
        Variant("c-special-set-ior-same-list-twice", "bad", chain(
            replace_stmt(mc, g, "special_indices.update(periodic)", "special_indices |= frozenset(periodic)"),
            replace_stmt(mc, g, "special_indices.update(reflective)", "special_indices |= frozenset(periodic)")), ["C16.c"], quick=True),
        Variant("c-special-set-optional-key-of-wrong-list", "bad", chain(
            insert_before(mc, g, "special_indices = set()", "pkey = None if periodic is None else frozenset(periodic)\nrkey = None if reflective is None else frozenset(periodic)"),
            replace_stmt(mc, g, "special_indices.update(periodic)", "special_indices |= pkey"),
            replace_stmt(mc, g, "special_indices.update(reflective)", "special_indices |= rkey")), ["C16.c"]),
        Variant("d-periodic-mod2", "bad", replace_expr(mc, f, "u[..., idx] % 1.0", "u[..., idx] % 2.0"), ["C16.d"], quick=True),
        Variant("d-reflect-swapped", "bad", replace_expr(mc, f, "np.where(np.mod(n_reflect, 2.0) == 0, remainder, 1.0 - remainder)", "np.where(np.mod(n_reflect, 2.0) == 0, 1.0 - remainder, remainder)"), ["C16.d"], quick=True),
        Variant("d-reflect-parity-1", "bad", replace_expr(mc, f, "np.mod(n_reflect, 2.0) == 0", "np.mod(n_reflect, 2.0) == 1"), ["C16.d"]),
        Variant("d-reflect-no-flip", "bad", replace_expr(mc, f, "1.0 - remainder", "remainder"), ["C16.d"]),
        Variant("d-ceil", "bad", replace_expr(mc, f, "np.floor(val)", "np.ceil(val)"), ["C16.d"]),
        Variant("e-index-list-truthiness", "bad", replace_stmt("tempest/steps/mutate.py", "Mutator.__init__", "self.periodic = periodic", "self.periodic = periodic if periodic is not None and np.any(periodic) else None"), ["C16.e"], quick=True),
        Variant("d-roundoff-guard-jump", "bad", replace_stmt(mc, f, "remainder = val - n_reflect", "remainder = val - n_reflect\nremainder = np.where(remainder >= 1.0, 0.0, remainder)"), ["C16.d"], quick=True),
        Variant("d-benign-dead-guard-same-limit", "benign", replace_stmt(mc, f, "remainder = val - n_reflect", "remainder = val - n_reflect\nremainder = np.where(remainder >= 1.0, 1.0, remainder)")),
        Variant("benign-remainder-mod1", "benign", replace_stmt(mc, f, "remainder = val - n_reflect", "remainder = val % 1.0"), quick=True),
        Variant("benign-periodic-floor", "benign", replace_expr(mc, f, "u[..., idx] % 1.0", "u[..., idx] - np.floor(u[..., idx])")),
        Variant("g-fast-path-tests-index-values", "bad", replace_stmt(mc, f, "u = u.copy()", "u = u.copy()\nif not (np.any(periodic) or np.any(reflective)):\n    return u"), ["C16.g"], quick=True),
        Variant("g-benign-fast-path-tests-presence", "benign", replace_stmt(mc, f, "u = u.copy()", "u = u.copy()\nif periodic is None and reflective is None:\n    return u")),
        Variant("g-merged-exempt-list-extended-in-place", "bad", insert_after(mc, "BaseMCMCRunner.__init__", "self.reflective = reflective", "self.exempt = self.periodic if self.periodic is not None else []\nif self.reflective is not None:\n    self.exempt += list(self.reflective)"), ["C16.g"]),
        Variant("f-memo-keyed-by-counts", "bad", _memo_key_variant(False), ["C16.f"], quick=True),
        Variant("f-benign-memo-keyed-by-index-tuples", "benign", _memo_key_variant(True)),
        Variant("f-mutable-default-special-set", "bad", _mutable_default_variant(True), ["C16.f"], quick=True),
        Variant("f-benign-none-default-special-set", "benign", _mutable_default_variant(False)),
        Variant("benign-rename", "benign", alpha_rename(mc, f, "n_reflect", "k_fold")),
    ]


def _mutable_default_variant(shared: bool):
    """check_bounds builds the exempt set through a helper whose accumulator is a default argument"""
    from ..variants import chain, insert_before_function, replace_stmt

    mc = "tempest/mcmc.py"
    helper = ("def _special_indices(periodic=None, reflective=None, special=set()):\n" if shared else
              "def _special_indices(periodic=None, reflective=None, special=None):\n    special = set() if special is None else special\n") + \
        "    if periodic is not None:\n        special.update(periodic)\n    if reflective is not None:\n        special.update(reflective)\n    return special\n"
    return chain(
        insert_before_function(mc, "check_bounds", helper),
        replace_stmt(mc, "check_bounds", "special_indices = set()", "special_indices = _special_indices(periodic, reflective)"),
    )


def _memo_key_variant(complete: bool):
    """check_bounds records the strict index list in a module-level memo keyed by counts and reads it back (bad) / only
    records it under the full index tuples (benign)"""
    from ..variants import chain, insert_after, insert_before_function

    mc = "tempest/mcmc.py"
    key = ("(n_dim, None if periodic is None else tuple(int(i) for i in periodic), None if reflective is None else tuple(int(i) for i in reflective))" if complete
           else "(n_dim, 0 if periodic is None else len(periodic), 0 if reflective is None else len(reflective))")
    tail = "" if complete else "\nstrict_indices = _STRICT[layout]"
    return chain(
        insert_before_function(mc, "check_bounds", "_STRICT = {}\n"),
        insert_after(mc, "check_bounds", "strict_indices = list(all_indices - special_indices)", "layout = " + key + "\nif layout not in _STRICT:\n    _STRICT[layout] = strict_indices" + tail),
    )
