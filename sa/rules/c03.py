"""C03  Mutation kernels leave the tempered target invariant (detailed balance).

Six structural necessary conditions of detailed balance:
  C03.a  single-draw proposal: no loop redraws the proposal until it passes the
         bounds predicate (a truncated proposal whose normaliser is missing from
         the acceptance ratio)                      [known findings K1a/K1b]
  C03.b  two-sided density: the correction is f(u') and f(u) of the same
         expression f, with opposite signs (equal modulo u_prime <-> self.u)
  C03.c  orientation (sign x monotonicity domain): the correction increases with
         the proposed state's quadratic form and decreases with the current one's;
         the log-acceptance increases with logl_prime, decreases with self.logl,
         both with coefficient self.beta; the accept mask is `uniform < alpha`
         with a fresh uniform of length n_walkers
  C03.d  Crank-Nicolson identity: proposal = mu + a*diff + b*sqrt(s)*L z with
         a**2 + b**2 == 1 (sympy)
  C03.e  scale-mixture parameters: s = 1/Gamma(shape=(d+nu)/2, scale=2/(nu+delta))
         with nu, covariance factors all indexed by the walker's own cluster
  C03.f  symmetric random walk: coefficient 1 on the current point, noise scale
         independent of the current point, zero correction
"""
from __future__ import annotations

import ast
from typing import Dict, List, Optional, Set, Tuple

from ..cfg import cfg_of
from ..dataflow import Resolver as ExprResolver
from ..dataflow import expr_leaves, flow_of
from ..engine import Context, Reporter
from ..model import AnalysisError, ClassInfo, FuncInfo, dotted, norm_text, walk_no_nested
from ..util import call_arg, calls_in, calls_in_node, conds_holding_at, const_value, unparse
from .c07 import bounds_helpers, kernel_base

PROP = "C03"
EXPLANATION = (
    "Decides six structural necessary conditions of detailed balance for both kernels: no retry loop redraws a proposal "
    "until the bounds predicate accepts it; the Student-t correction is the same expression evaluated at the proposed and "
    "at the current state with opposite signs; its orientation (sign/monotonicity domain) is t(current)/t(proposed) and "
    "the Metropolis step accepts with min(1, exp(beta*(logL' - logL) + correction)) against a fresh uniform; the tpCN "
    "proposal's coefficients satisfy a^2 + b^2 = 1 and its inverse-gamma scale draw has shape (d+nu)/2 and scale "
    "2/(nu+delta) (algebraic lints, sympy), with every mode quantity indexed by the walker's own cluster; the random walk "
    "is current + noise with unit coefficient, state-independent noise scale and zero correction. Invariance itself, "
    "consistent two-sided edits, numerics of the inverse/Cholesky factors and in-run step-size adaptation are not decided."
    " Also (j) every per-mode statistic the acceptance correction reads is one the proposal is drawn with."
)
ASSUMPTIONS = ["numpy.random.gamma(shape, scale) and randn draw the documented laws", "mode statistics hold the inverse and the Cholesky factor of the same covariance (constructed in ModeStatistics.__init__, checked structurally under C03.e)"]


def kernels(ctx: Context) -> Tuple[ClassInfo, List[ClassInfo]]:
    base = kernel_base(ctx)
    subs = [c for c in ctx.prog.subclasses(base) if "_propose" in c.methods]
    return base, subs


def is_zero_correction(m: FuncInfo) -> bool:
    rets = [r for r in walk_no_nested(m.node) if isinstance(r, ast.Return) and r.value is not None]
    return bool(rets) and all(isinstance(r.value, ast.Call) and dotted(r.value.func).split(".")[-1] in ("zeros", "zeros_like") or const_value(r.value) in (0, 0.0) for r in rets)


# ------------------------------------------------------------------ C03.a
def rule_a(ctx: Context, R: Reporter, subs: List[ClassInfo]):
    bmap, pred = bounds_helpers(ctx)
    n = 0
    for c in subs:
        m = c.methods["_propose"]
        flow = flow_of(m.node)
        cfg = flow.cfg
        draws = [s for s in ctx.rng.draws() if s.func is m]
        n += 1
        offenders = []
        for d in draws:
            nd = flow.node_containing(d.call)
            for lp in nd.loops:
                head = cfg.nodes[lp]
                body = cfg.loop_body(lp) if head.kind == "test" else {x.id for x in cfg.nodes if lp in x.loops} | {lp}
                # exits of the loop guarded by the bounds predicate
                for a in body:
                    for (b, lab) in cfg.succ[a]:
                        if b in body:
                            continue
                        src = cfg.nodes[a]
                        conds = conds_holding_at(cfg, cfg.nodes[b]) if cfg.nodes[b].kind not in ("exit",) else []
                        test_exprs = [src.ast] if src.kind == "test" else []
                        test_exprs += [t for (t, p) in conds]
                        if any(isinstance(x, ast.Call) and pred in [t for t in ctx.res.call_targets(m, x) if isinstance(t, FuncInfo)] for te in test_exprs for x in ast.walk(te)):
                            offenders.append((d, head))
        seen = set()
        for (d, head) in offenders:
            hk = "while " + norm_text(head.ast) if head.kind == "test" else "for " + norm_text(head.stmt.iter)
            if (hk,) in seen:
                continue
            seen.add((hk,))
            R.check(
                "C03.a", f"{m.short}: the proposal is drawn once (no redraw-until-inside loop)", False, m, head.stmt,
                msg=f"{m.short}: `{unparse(d.call)}` is redrawn in a loop (`{hk[:40]}`) that is left only when {pred.name}() accepts the point: the effective proposal is the "
                    f"truncated law q(u'|u)/Z(u) but Z(u) is missing from the acceptance ratio, so the stationary law is pi(u) Z(u) instead of pi(u) near hard boundaries",
                witness={"draw": unparse(d.call), "loop": hk}, key=f"retry-loop:{hk[:60]}",
            )
        if not offenders:
            R.check("C03.a", f"{m.short}: the proposal is drawn once", True, m, m.node, key="single-draw")
    R.floor("C03.a", "proposal implementations", n, 2)


# ------------------------------------------------------------------ C03.b / c
def signed_terms(e: ast.expr, sign: int = 1) -> List[Tuple[int, ast.expr]]:
    if isinstance(e, ast.BinOp) and isinstance(e.op, ast.Add):
        return signed_terms(e.left, sign) + signed_terms(e.right, sign)
    if isinstance(e, ast.BinOp) and isinstance(e.op, ast.Sub):
        return signed_terms(e.left, sign) + signed_terms(e.right, -sign)
    if isinstance(e, ast.UnaryOp) and isinstance(e.op, ast.USub):
        return signed_terms(e.operand, -sign)
    if isinstance(e, ast.UnaryOp) and isinstance(e.op, ast.UAdd):
        return signed_terms(e.operand, sign)
    return [(sign, e)]


class _Subst(ast.NodeTransformer):
    def __init__(self, param: str):
        self.param = param

    def visit_Name(self, node):
        if node.id == self.param:
            return ast.copy_location(ast.Attribute(value=ast.Name(id="self", ctx=ast.Load()), attr="u", ctx=ast.Load()), node)
        return node


def rule_bc(ctx: Context, R: Reporter, base: ClassInfo, subs: List[ClassInfo]):
    import copy

    n_pairs = 0
    for c in subs:
        m = c.methods.get("_compute_acceptance_factor")
        if m is None or is_zero_correction(m):
            continue
        uparam = [p for p in m.params if p != "self"][0]
        flow = flow_of(m.node)
        rets = [n for n in flow.cfg.stmt_nodes() if n.kind == "stmt" and isinstance(n.stmt, ast.Return) and n.stmt.value is not None]
        for rn in rets:
            rs = ExprResolver(m.node, max_depth=20)
            terms = []
            for (sg, t) in signed_terms(rn.stmt.value):
                rt = rs.resolve(t, rn)
                # a resolved term may itself start with a unary minus / be a product with a negative constant: keep as is
                names = {x.id for x in ast.walk(rt) if isinstance(x, ast.Name)}
                attrs = {dotted(x) for x in ast.walk(rt) if isinstance(x, ast.Attribute)}
                dep_prop = uparam in names
                dep_cur = "self.u" in attrs
                terms.append((sg, rt, dep_prop, dep_cur))
            prop = [(sg, t) for (sg, t, dp, dc) in terms if dp and not dc]
            cur = [(sg, t) for (sg, t, dp, dc) in terms if dc and not dp]
            mixed = [(sg, t) for (sg, t, dp, dc) in terms if dp and dc]
            n_pairs += 1
            ok = len(prop) == len(cur) and len(prop) >= 1 and not mixed
            detail = ""
            if ok:
                cur_texts = sorted((-sg, norm_text(t)) for (sg, t) in cur)
                prop_texts = sorted((sg, norm_text(_Subst(uparam).visit(copy.deepcopy(t)))) for (sg, t) in prop)
                ok = cur_texts == prop_texts
                if not ok:
                    detail = f"proposed-state term(s) {[unparse(t)[:80] for (sg, t) in prop]} vs current-state term(s) {[unparse(t)[:80] for (sg, t) in cur]}"
            R.check(
                "C03.b", f"{m.short}: the correction is one density expression evaluated at the proposed and at the current state with opposite signs", ok, m, rn.stmt,
                msg=f"{m.short}: `{unparse(rn.stmt)}` is not f(u') - f(u) for a single f ({detail or f'{len(prop)} proposed-state, {len(cur)} current-state, {len(mixed)} mixed terms'}): "
                    f"a one-sided edit of the Student-t log-density breaks detailed balance", key="two-sided-density",
            )
            # C03.c orientation of the correction
            for (sg, t) in prop:
                mono = _mono_in_quadratic_form(ctx, m, t)
                if mono is None:
                    raise AnalysisError(f"C03.c: monotonicity of `{unparse(t)[:60]}` in the quadratic form not decidable (outside the sign/monotonicity vocabulary)")
                total = mono * sg
                R.check("C03.c", f"{m.short}: the correction increases with the proposed state's quadratic form", total > 0, m, rn.stmt,
                        msg=f"{m.short}: the correction is {'decreasing' if total < 0 else 'constant'} in the Mahalanobis form of the proposed state; the Hastings ratio must be t(u)/t(u') "
                            f"(log t decreases with the form), i.e. sign error in the Student-t correction", key="orientation-proposed")
            for (sg, t) in cur:
                mono = _mono_in_quadratic_form(ctx, m, t)
                if mono is None:
                    raise AnalysisError(f"C03.c: monotonicity of `{unparse(t)[:60]}` not decidable")
                total = mono * sg
                R.check("C03.c", f"{m.short}: the correction decreases with the current state's quadratic form", total < 0, m, rn.stmt,
                        msg=f"{m.short}: the correction is {'increasing' if total > 0 else 'constant'} in the Mahalanobis form of the current state", key="orientation-current")
    R.floor("C03.b", "non-trivial correction returns", n_pairs, 1)
    # the shared accept step (possibly split over extracted helper methods of the kernel base)
    from ..chain import defs_of, enter_call, unique_def

    UNI = ("numpy.random.rand", "numpy.random.random", "numpy.random.uniform", "numpy.random.random_sample")
    masks = []
    for m in base.methods.values():
        flow = flow_of(m.node)
        for nd in flow.cfg.stmt_nodes():
            if nd.kind == "stmt" and isinstance(nd.stmt, ast.Assign) and isinstance(nd.stmt.value, ast.Compare) and len(nd.stmt.value.ops) == 1:
                l, r = nd.stmt.value.left, nd.stmt.value.comparators[0]
                for (a, b, flip) in ((l, r, False), (r, l, True)):
                    if isinstance(a, ast.Name):
                        links = defs_of(ctx, m, nd, a.id)
                        if links and all(lk.value is not None and isinstance(lk.value, ast.Call) and (ctx.res.external_name(lk.fi, lk.value) or "") in UNI for lk in links):
                            masks.append((m, nd, a, b, flip, links))
                    elif isinstance(a, ast.Call) and (ctx.res.external_name(m, a) or "") in UNI:
                        # the draw written inline in the comparison: `np.random.rand(n) < alpha`
                        from ..chain import Link

                        masks.append((m, nd, a, b, flip, [Link(m, nd, a, "assign", nd.stmt)]))
    R.floor("C03.c", "accept masks (uniform vs acceptance probability)", len(masks), 1)
    for (m, nd, uni, alpha, flip, links) in masks:
        op = nd.stmt.value.ops[0]
        strict_lt = (isinstance(op, ast.Lt) and not flip) or (isinstance(op, ast.Gt) and flip)
        R.check("C03.c", "accept iff uniform < alpha (strict, so alpha = 0 is never accepted)", strict_lt, m, nd.stmt,
                msg=f"{m.short}: `{unparse(nd.stmt)}` is not `uniform < alpha`: a flipped or non-strict comparison accepts with the wrong probability (or accepts -inf likelihoods)", key="accept-comparison")
        fresh = all(lk.node is not None and lk.node.loops or _called_in_loop(ctx, lk.fi, base) for lk in links) and \
            all(norm_text(lk.value.args[0]) in ("self.n_walkers", "len(self.u)", "self.u.shape[0]") for lk in links if lk.value.args)
        R.check("C03.c", "the uniform is drawn fresh in every step, one per walker", fresh, links[0].fi, links[0].stmt if links[0].stmt is not None else nd.stmt,
                msg=f"{m.short}: the comparison uniform `{unparse(links[0].value)}` is not drawn per step with one value per walker", key="fresh-uniform")
        chain = _alpha_chain(ctx, m, nd, alpha)
        if chain["status"] == "undecided":
            raise AnalysisError(f"C03.c: acceptance probability not recognisable: {chain['why']} (shape so far {chain['shape']})")
        R.check("C03.c", "alpha = min(1, exp(beta * (logL' - logL) + correction))", chain["status"] == "ok", m, nd.stmt,
                msg=f"{m.short}: acceptance probability has the shape {chain['shape']}; {chain['why']}", witness={k: str(v) for k, v in chain.items()}, key="alpha-shape")


def _called_in_loop(ctx: Context, f: FuncInfo, base: ClassInfo) -> bool:
    """f is a helper called from inside the kernel's step loop."""
    for (cf, call) in ctx.cg.callers.get(f.qualname, []):
        n = flow_of(cf.node).node_containing(call)
        if n is not None and n.loops:
            return True
    return False


def _alpha_chain(ctx: Context, fi: FuncInfo, at, expr: ast.expr) -> dict:
    """Follow the acceptance probability backwards (through locals, extracted
    helpers and parameters): monotone wrappers minimum(1, .) / nan_to_num(., nan=0)
    down to exp(beta * (logl' - logl) + correction)."""
    from ..chain import enter_call, unique_def

    out = {"status": "undecided", "shape": [], "why": ""}
    seen_min = False
    for _ in range(16):
        if isinstance(expr, ast.Name):
            link = unique_def(ctx, fi, at, expr.id)
            if link is None:
                out["why"] = f"`{expr.id}` in {fi.short} has no unique definition"
                return out
            fi, at, expr = link.fi, link.node, link.value
            continue
        if not isinstance(expr, ast.Call):
            out["why"] = f"unrecognised step `{unparse(expr)[:60]}` in {fi.short}"
            return out
        fn = dotted(expr.func).split(".")[-1]
        ext = ctx.res.external_name(fi, expr) or ""
        if ext.startswith("numpy.") and fn == "minimum" and len(expr.args) == 2:
            others = [a for a in expr.args if const_value(a) in (1, 1.0)]
            inner = [a for a in expr.args if a not in others]
            if len(others) == 1 and len(inner) == 1:
                out["shape"].append("minimum(1, .)")
                seen_min = True
                expr = inner[0]
                continue
            out["status"], out["why"] = "bad", f"`{unparse(expr)}` is not minimum(1, alpha)"
            return out
        if ext.startswith("numpy.") and fn == "nan_to_num" and expr.args:
            nanv = call_arg(expr, None, "nan")
            if nanv is not None and const_value(nanv) not in (0, 0.0):
                out["status"], out["why"] = "bad", f"NaN acceptance mapped to {unparse(nanv)}"
                return out
            out["shape"].append("nan_to_num(.)")
            expr = expr.args[0]
            continue
        if ext in ("numpy.exp", "math.exp") and expr.args:
            out["shape"].append("exp(.)")
            arg = ExprResolver(fi.node).resolve(expr.args[0], at) if at is not None else expr.args[0]
            raw_terms = signed_terms(expr.args[0])
            like = None
            rest = []
            for (sg, t) in signed_terms(arg):
                if isinstance(t, ast.BinOp) and isinstance(t.op, ast.Mult):
                    fs = [t.left, t.right]
                    b = [f for f in fs if norm_text(f) == "self.beta"]
                    o = [f for f in fs if norm_text(f) != "self.beta"]
                    if len(b) == 1 and len(o) == 1:
                        dterms = signed_terms(o[0])
                        pos = [norm_text(x) for (s2, x) in dterms if s2 * sg > 0]
                        neg = [norm_text(x) for (s2, x) in dterms if s2 * sg < 0]
                        if len(pos) == 1 and len(neg) == 1 and neg[0] == "self.logl" and pos[0] != "self.logl" and "logl" in pos[0]:
                            like = (pos[0], neg[0])
                            continue
                rest.append((sg, t))
            if like is None:
                out["status"], out["why"] = "bad", f"exponent `{unparse(arg)[:80]}` does not contain self.beta * (logl_prime - self.logl)"
                return out
            # the remaining term: the kernel's correction (a name defined by the correction call, or the call itself)
            corr_ok = False
            if len(rest) == 1 and rest[0][0] == 1:
                t = rest[0][1]
                if isinstance(t, ast.Call) and isinstance(t.func, ast.Attribute) and "acceptance_factor" in t.func.attr:
                    corr_ok = True
                elif isinstance(t, ast.Name):
                    # the unresolved name in the original expression
                    names = [x for (sg2, x) in raw_terms if isinstance(x, ast.Name)]
                    for nm in names or [t]:
                        lk = unique_def(ctx, fi, at, nm.id)
                        if lk is not None and isinstance(lk.value, ast.Call) and isinstance(lk.value.func, ast.Attribute) and "acceptance_factor" in lk.value.func.attr:
                            corr_ok = True
            if not corr_ok:
                out["status"], out["why"] = "bad", f"exponent `{unparse(arg)[:80]}` does not add exactly the kernel's correction term"
                return out
            out["status"] = "ok" if seen_min else "bad"
            out["why"] = "" if seen_min else "missing minimum(1, .)"
            out["likelihood_term"] = like
            return out
        ent = enter_call(ctx, fi, expr)
        if ent is not None:
            out["shape"].append(f"{ent.fi.name}(.)")
            fi, at, expr = ent.fi, ent.node, ent.value
            continue
        out["why"] = f"unrecognised step `{unparse(expr)[:60]}` in {fi.short}"
        return out
    out["why"] = "chain too long"
    return out


def _mono_in_quadratic_form(ctx: Context, m: FuncInfo, t: ast.expr) -> Optional[int]:
    """+1 / -1 / 0: monotonicity of term t in its (unique) quadratic-form
    sub-expression q >= 0, with the sign knowledge: n_dim > 0, dof > 0,
    numeric literals by value; log/sqrt/exp increasing."""
    qs = [x for x in ast.walk(t) if isinstance(x, ast.Call) and (ctx.res.external_name(m, x) or "") == "numpy.einsum" or (isinstance(x, ast.BinOp) and isinstance(x.op, ast.MatMult) and isinstance(x.left, ast.BinOp) and isinstance(x.left.op, ast.MatMult))]
    if not qs:
        return None
    q = qs[0]
    qt = norm_text(q)

    def sign(e) -> Optional[int]:
        v = const_value(e)
        if isinstance(v, (int, float)) and not isinstance(v, bool):
            return 1 if v > 0 else (-1 if v < 0 else 0)
        tx = norm_text(e)
        if tx == qt:
            return 1
        if "n_dim" in tx and isinstance(e, ast.Attribute):
            return 1
        if "degrees_of_freedom" in tx and not any(isinstance(x, (ast.BinOp, ast.UnaryOp)) for x in ast.walk(e)):
            return 1
        if isinstance(e, ast.UnaryOp) and isinstance(e.op, ast.USub):
            s = sign(e.operand)
            return -s if s is not None else None
        if isinstance(e, ast.BinOp):
            l, r = sign(e.left), sign(e.right)
            if l is None or r is None:
                return None
            if isinstance(e.op, (ast.Mult, ast.Div)):
                return l * r
            if isinstance(e.op, ast.Add):
                return 1 if (l >= 0 and r >= 0 and (l or r)) else (-1 if (l <= 0 and r <= 0 and (l or r)) else None)
            if isinstance(e.op, ast.Sub):
                return 1 if (l >= 0 and r <= 0 and (l or r)) else (-1 if (l <= 0 and r >= 0 and (l or r)) else None)
        return None

    def mono(e) -> Optional[int]:
        tx = norm_text(e)
        if tx == qt:
            return 1
        if qt not in tx:
            return 0
        if isinstance(e, ast.UnaryOp) and isinstance(e.op, ast.USub):
            x = mono(e.operand)
            return -x if x is not None else None
        if isinstance(e, ast.BinOp):
            lm, rm = mono(e.left), mono(e.right)
            if lm is None or rm is None:
                return None
            if isinstance(e.op, ast.Add):
                return lm if rm == 0 else (rm if lm == 0 else (lm if lm == rm else None))
            if isinstance(e.op, ast.Sub):
                return lm if rm == 0 else (-rm if lm == 0 else (lm if lm == -rm else None))
            if isinstance(e.op, ast.Mult):
                if rm == 0:
                    s = sign(e.right)
                    return None if s is None else lm * s
                if lm == 0:
                    s = sign(e.left)
                    return None if s is None else rm * s
                return None
            if isinstance(e.op, ast.Div):
                if rm == 0:
                    s = sign(e.right)
                    return None if s is None or s == 0 else lm * s
                return None
            return None
        if isinstance(e, ast.Call):
            fn = (ctx.res.external_name(m, e) or "").split(".")[-1]
            if fn in ("log", "log1p", "sqrt", "exp") and e.args:
                return mono(e.args[0])
            return None
        return None

    return mono(t)


# ------------------------------------------------------------------ C03.d / e
def tpcn_propose(ctx: Context, subs: List[ClassInfo]) -> Optional[FuncInfo]:
    for c in subs:
        m = c.methods["_propose"]
        if any(s.func is m and s.name == "numpy.random.gamma" for s in ctx.rng.draws()):
            return m
    return None


def _own_cluster_index(e: ast.expr, kparam: str) -> bool:
    """e is self.assignments[k] (the walker's own cluster)."""
    return isinstance(e, ast.Subscript) and norm_text(e.value) == "self.assignments" and isinstance(e.slice, ast.Name) and e.slice.id == kparam


def rule_de(ctx: Context, R: Reporter, subs: List[ClassInfo]):
    from ..algebra import ensure_sympy

    sp = ensure_sympy()
    m = tpcn_propose(ctx, subs)
    if m is None:
        raise AnalysisError("C03.d: t-preconditioned proposal (gamma draw) not found")
    kparam = [p for p in m.params if p != "self"][0]
    flow = flow_of(m.node)
    cfg = flow.cfg
    rs = ExprResolver(m.node, max_depth=20)
    d_, nu, delta, sig, s_ = sp.symbols("d nu delta sigma s", positive=True)
    attr_sources = _mode_attr_sources(ctx, m.cls)

    def resolve_attr(e: ast.expr) -> ast.expr:
        return e

    def to_sym(e: ast.expr):
        """scalar algebra over d, nu, delta, sigma, s"""
        v = const_value(e)
        if isinstance(v, (int, float)) and not isinstance(v, bool):
            return sp.nsimplify(v)
        tx = norm_text(e)
        if tx == "self.n_dim":
            return d_
        if isinstance(e, ast.Subscript):
            base = norm_text(e.value)
            if _own_cluster_index(e.slice, kparam):
                role = attr_sources.get(base)
                if role == "degrees_of_freedom":
                    return nu
                if base == "self.sigmas":
                    return sig
            raise _Und(f"`{tx}` is not a mode quantity indexed by the walker's own cluster self.assignments[{kparam}]")
        if isinstance(e, ast.BinOp) and isinstance(e.op, ast.MatMult):
            # diff @ inv_cov[own] @ diff with diff = self.u[k] - means[own]
            parts = _matmul_chain(e)
            if len(parts) == 3 and norm_text(parts[0]) == norm_text(parts[2]) and _is_diff(parts[0], kparam, attr_sources) and isinstance(parts[1], ast.Subscript) \
                    and attr_sources.get(norm_text(parts[1].value)) == "inv_covariances" and _own_cluster_index(parts[1].slice, kparam):
                return delta
            raise _Und(f"`{tx[:60]}` is not diff @ inv_cov[own cluster] @ diff")
        if isinstance(e, ast.BinOp):
            l, r = to_sym(e.left), to_sym(e.right)
            if isinstance(e.op, ast.Add):
                return l + r
            if isinstance(e.op, ast.Sub):
                return l - r
            if isinstance(e.op, ast.Mult):
                return l * r
            if isinstance(e.op, ast.Div):
                return l / r
            if isinstance(e.op, ast.Pow):
                return l ** r
        if isinstance(e, ast.UnaryOp) and isinstance(e.op, ast.USub):
            return -to_sym(e.operand)
        if isinstance(e, ast.Call):
            fn = (ctx.res.external_name(m, e) or "")
            if fn in ("numpy.sqrt", "math.sqrt") and e.args:
                return sp.sqrt(to_sym(e.args[0]))
            if fn == "numpy.random.gamma":
                raise _Und("nested gamma draw")
        if isinstance(e, ast.Name) and e.id == "__s__":
            return s_
        raise _Und(f"`{tx[:60]}` is outside the algebraic vocabulary")

    # ---- C03.e
    gam = [s for s in ctx.rng.draws() if s.func is m and s.name == "numpy.random.gamma"]
    if len(gam) != 1:
        raise AnalysisError(f"C03.e: expected one gamma draw in {m.short}, found {len(gam)}")
    g = gam[0]
    gn = flow.node_containing(g.call)
    shape_e = call_arg(g.call, 0, "shape")
    scale_e = call_arg(g.call, 1, "scale")
    if shape_e is None or scale_e is None:
        raise AnalysisError("C03.e: gamma draw without explicit shape and scale")
    # inverse: s = 1 / gamma
    s_name = None
    st = gn.stmt
    inv_ok = isinstance(st, ast.Assign) and isinstance(st.value, ast.BinOp) and isinstance(st.value.op, ast.Div) and const_value(st.value.left) in (1, 1.0) and st.value.right is g.call and isinstance(st.targets[0], ast.Name)
    R.check("C03.e", "the scale variable is the reciprocal of the gamma draw (inverse-gamma)", inv_ok, m, st,
            msg=f"{m.short}: `{unparse(st)[:70]}` is not s = 1 / Gamma(...)", key="inverse-gamma")
    if inv_ok:
        s_name = st.targets[0].id
    R.check("C03.e", "the gamma draw happens once per proposal (outside any retry loop)", not gn.loops, m, st,
            msg=f"{m.short}: the gamma draw is inside a loop", key="gamma-once")
    try:
        shape = to_sym(_attr_inline(ctx, m, rs.resolve(shape_e, gn)))
        ok_shape = sp.simplify(shape - (d_ + nu) / 2) == 0
        msg_shape = f"shape resolves to `{shape}`"
    except _Und as ex:
        ok_shape, msg_shape = False, str(ex)
    R.check("C03.e", "gamma shape is (d + nu) / 2 with nu of the walker's own cluster", ok_shape, m, g.call,
            msg=f"{m.short}: {msg_shape}; the scale-mixture representation of the multivariate t needs shape (d + nu)/2", key="gamma-shape")
    try:
        scl = to_sym(_attr_inline(ctx, m, rs.resolve(scale_e, gn)))
        ok_scale = sp.simplify(scl - 2 / (nu + delta)) == 0
        msg_scale = f"scale resolves to `{scl}`"
    except _Und as ex:
        ok_scale, msg_scale = False, str(ex)
    R.check("C03.e", "gamma scale is 2 / (nu + delta) with delta the Mahalanobis form of the current displacement", ok_scale, m, g.call,
            msg=f"{m.short}: {msg_scale}; required 2/(nu + delta)", key="gamma-scale")
    # ---- C03.d: the proposal statement
    props = [nd for nd in cfg.stmt_nodes() if nd.kind == "stmt" and isinstance(nd.stmt, ast.Assign) and any(s.func is m and s.name in ("numpy.random.randn", "numpy.random.standard_normal", "numpy.random.normal") and any(x is s.call for x in ast.walk(nd.stmt.value)) for s in ctx.rng.draws())]
    if len(props) != 1:
        raise AnalysisError(f"C03.d: expected one proposal statement with a normal draw in {m.short}, found {len(props)}")
    pn = props[0]
    # loop-invariant parts hoisted into locals (`centre = mu + a * diff`) are inlined before the sum is split
    pval = _unwrap_boundary_map(ctx, m, pn.stmt.value)
    terms = signed_terms(rs.resolve(pval, pn))
    if len(terms) < 3:
        terms = signed_terms(pval)
    mu_t = diff_t = noise_t = None
    for (sg, t) in terms:
        rt = _attr_inline(ctx, m, rs.resolve(t, pn))
        has_noise = any(isinstance(x, ast.Call) and (ctx.res.external_name(m, x) or "").startswith("numpy.random.") for x in ast.walk(rt))
        if has_noise:
            noise_t = (sg, t, rt)
        elif _contains_diff(rt, kparam, attr_sources):
            diff_t = (sg, t, rt)
        else:
            mu_t = (sg, t, rt)
    ok_form = mu_t is not None and diff_t is not None and noise_t is not None and len(terms) == 3
    R.check("C03.d", "the proposal is mu + a * (u - mu) + b * L z", ok_form, m, pn.stmt,
            msg=f"{m.short}: `{unparse(pn.stmt)[:90]}` is not affine in the displacement from the mode mean and one Gaussian draw", key="pcn-affine")
    if ok_form:
        ok_mu = mu_t[0] == 1 and isinstance(mu_t[2], ast.Subscript) and attr_sources.get(norm_text(mu_t[2].value)) == "means" and _own_cluster_index(mu_t[2].slice, kparam)
        R.check("C03.d", "the centre is the mean of the walker's own cluster", ok_mu, m, pn.stmt, msg=f"{m.short}: centre term `{unparse(mu_t[2])[:60]}`", key="pcn-centre")
        try:
            a = _scalar_coeff(diff_t[2], lambda x: _is_diff(x, kparam, attr_sources), to_sym) * diff_t[0]
            # noise: b * chol[own] @ randn(n_dim)
            def is_noise_vec(x):
                return isinstance(x, ast.BinOp) and isinstance(x.op, ast.MatMult) and isinstance(x.left, ast.Subscript) and attr_sources.get(norm_text(x.left.value)) == "chol_covariances" \
                    and _own_cluster_index(x.left.slice, kparam) and isinstance(x.right, ast.Call) and (ctx.res.external_name(m, x.right) or "").startswith("numpy.random.")
            nt = noise_t[2]
            # allow (b * L) @ z association: normalise `x * L @ z`
            b = _scalar_coeff(_reassoc(nt), is_noise_vec, lambda e: to_sym(_sub_s(e, s_name))) * noise_t[0]
            ident = sp.simplify(a ** 2 + b ** 2 / s_ - 1)
            ok_id = ident == 0
            msg_id = f"a = {a}, b = {b}: a^2 + b^2/s - 1 = {ident}"
        except _Und as ex:
            ok_id, msg_id = False, str(ex)
        R.check("C03.d", "Crank-Nicolson identity a^2 + b^2 = 1 (b measured in units of sqrt(s) L)", ok_id, m, pn.stmt,
                msg=f"{m.short}: {msg_id}; the pCN move is reversible w.r.t. the reference t only when the contraction and the innovation satisfy a^2 + b^2 = 1", key="pcn-identity")
        # the normal draw has dimension n_dim
        zc = [x for x in ast.walk(pn.stmt.value) if isinstance(x, ast.Call) and (ctx.res.external_name(m, x) or "").startswith("numpy.random.")]
        R.check("C03.d", "the Gaussian innovation has one component per dimension", all(z.args and norm_text(z.args[0]) == "self.n_dim" for z in zc), m, pn.stmt,
                msg=f"{m.short}: innovation `{unparse(zc[0]) if zc else None}`", key="pcn-dim")
    # inverse / Cholesky of the same covariance in the mode-statistics constructor
    _check_mode_factors(ctx, R)


class _Und(Exception):
    pass


def _matmul_chain(e: ast.expr) -> List[ast.expr]:
    if isinstance(e, ast.BinOp) and isinstance(e.op, ast.MatMult):
        return _matmul_chain(e.left) + _matmul_chain(e.right)
    return [e]


def _is_diff(e: ast.expr, kparam: str, srcs: Dict[str, str]) -> bool:
    return isinstance(e, ast.BinOp) and isinstance(e.op, ast.Sub) and norm_text(e.left) == f"self.u[{kparam}]" and isinstance(e.right, ast.Subscript) and srcs.get(norm_text(e.right.value)) == "means" \
        and _own_cluster_index(e.right.slice, kparam)


def _contains_diff(e: ast.expr, kparam, srcs) -> bool:
    return any(_is_diff(x, kparam, srcs) for x in ast.walk(e))


def _reassoc(e: ast.expr) -> ast.expr:
    """a * b * L @ z parses as ((a*b)*L) @ z: rewrite to (a*b) * (L @ z)."""
    if isinstance(e, ast.BinOp) and isinstance(e.op, ast.MatMult) and isinstance(e.left, ast.BinOp) and isinstance(e.left.op, ast.Mult):
        return ast.BinOp(left=e.left.left, op=ast.Mult(), right=ast.BinOp(left=e.left.right, op=ast.MatMult(), right=e.right))
    return e


def _scalar_coeff(e: ast.expr, is_vec, to_sym):
    """e = coeff * vec (product in any order): return coeff as sympy."""
    if is_vec(e):
        from ..algebra import ensure_sympy

        return ensure_sympy().Integer(1)
    if isinstance(e, ast.BinOp) and isinstance(e.op, ast.Mult):
        if is_vec(e.right):
            return to_sym(e.left)
        if is_vec(e.left):
            return to_sym(e.right)
        # nested products
        for (a, b) in ((e.left, e.right), (e.right, e.left)):
            try:
                inner = _scalar_coeff(a, is_vec, to_sym)
                return inner * to_sym(b)
            except _Und:
                continue
    raise _Und(f"`{unparse(e)[:70]}` is not (scalar) * (vector)")


def _sub_s(e: ast.expr, s_name: Optional[str]) -> ast.expr:
    import copy

    if s_name is None:
        return e

    class T(ast.NodeTransformer):
        def visit_Name(self, n):
            return ast.copy_location(ast.Name(id="__s__", ctx=ast.Load()), n) if n.id == s_name else n

        def visit_BinOp(self, n):
            # resolved s: 1 / np.random.gamma(...)
            if isinstance(n.op, ast.Div) and const_value(n.left) in (1, 1.0) and isinstance(n.right, ast.Call) and dotted(n.right.func).endswith("random.gamma"):
                return ast.copy_location(ast.Name(id="__s__", ctx=ast.Load()), n)
            return self.generic_visit(n)

    return T().visit(copy.deepcopy(e))


def _mode_attr_sources(ctx: Context, cls: ClassInfo) -> Dict[str, str]:
    """self.<attr> of the kernel -> attribute of the mode statistics it aliases
    (self.means = self.mode_stats.means, ...)."""
    out: Dict[str, str] = {}
    for c in [cls] + ctx.prog.bases(cls):
        for m in c.methods.values():
            fl = flow_of(m.node)
            rsv = ExprResolver(m.node)
            for n in walk_no_nested(m.node):
                if isinstance(n, ast.Assign) and len(n.targets) == 1 and isinstance(n.targets[0], ast.Attribute) and isinstance(n.targets[0].value, ast.Name) and n.targets[0].value.id == "self" \
                        and isinstance(n.value, ast.Attribute):
                    base = n.value.value
                    at = fl.node_containing(n)
                    # through local aliases (`stats = self.mode_stats`) and the constructor parameter itself
                    rb = rsv.resolve(base, at) if at is not None else base
                    txt = norm_text(rb)
                    if txt in ("self.mode_stats", "mode_stats"):
                        out["self." + n.targets[0].attr] = n.value.attr
    return out


def _attr_inline(ctx: Context, m: FuncInfo, e: ast.expr) -> ast.expr:
    """Inline kernel attributes that are precomputed in the constructor from
    other attributes (e.g. a cached gamma shape)."""
    import copy

    cls = m.cls
    table: Dict[str, ast.expr] = {}
    for c in [cls] + ctx.prog.bases(cls):
        for mm in c.methods.values():
            if mm.name != "__init__":
                continue
            for n in walk_no_nested(mm.node):
                if isinstance(n, ast.Assign) and len(n.targets) == 1 and isinstance(n.targets[0], ast.Attribute) and isinstance(n.targets[0].value, ast.Name) and n.targets[0].value.id == "self":
                    v = n.value
                    if isinstance(v, ast.BinOp) and any(isinstance(x, ast.Attribute) and isinstance(x.value, ast.Name) and x.value.id == "self" for x in ast.walk(v)):
                        table["self." + n.targets[0].attr] = v

    class T(ast.NodeTransformer):
        def visit_Attribute(self, n):
            k = dotted(n)
            if k in table:
                return copy.deepcopy(table[k])
            return self.generic_visit(n)

    out = T().visit(copy.deepcopy(e))
    return _push_index(out)


def _push_index(e: ast.expr) -> ast.expr:
    """(a + b[I]) [j] etc. are left as they are: an indexed compound expression is reported by to_sym."""
    return e


def _check_mode_factors(ctx: Context, R: Reporter):
    from .c14 import mode_class

    mc = mode_class(ctx)
    init = mc.methods["__init__"]
    assigns = {}
    for n in walk_no_nested(init.node):
        if isinstance(n, ast.Assign) and len(n.targets) == 1 and isinstance(n.targets[0], ast.Attribute) and isinstance(n.targets[0].value, ast.Name) and n.targets[0].value.id == "self":
            assigns[n.targets[0].attr] = n
    for attr, fn in (("inv_covariances", "numpy.linalg.inv"), ("chol_covariances", "numpy.linalg.cholesky")):
        st = assigns.get(attr)
        ok = st is not None and isinstance(st.value, ast.Call) and (ctx.res.external_name(init, st.value) or "") == fn and st.value.args and norm_text(st.value.args[0]) == "self.covariances"
        if st is not None and not ok:
            # an alternative construction (e.g. from the Cholesky factor): not decidable here unless it is the plain call
            R.check("C03.e", f"mode statistics: {attr} is {fn.split('.')[-1]}(covariances)", False, init, st,
                    msg=f"{init.short}: `{unparse(st)[:80]}` builds {attr} by another route than {fn}(self.covariances); the quadratic form in the acceptance ratio and the Cholesky factor "
                        f"used for proposals must belong to the same covariance (e.g. L^-1 L^-T instead of L^-T L^-1 is only right for diagonal matrices)", key=f"mode-factor:{attr}")
        else:
            R.check("C03.e", f"mode statistics: {attr} is {fn.split('.')[-1]}(covariances)", ok, init, st if st is not None else init.node,
                    msg=f"{init.short}: {attr} is never assigned", key=f"mode-factor:{attr}")


# ------------------------------------------------------------------ C03.f
def rule_f(ctx: Context, R: Reporter, subs: List[ClassInfo]):
    n = 0
    for c in subs:
        corr = c.methods.get("_compute_acceptance_factor")
        if corr is None or not is_zero_correction(corr):
            continue
        m = c.methods["_propose"]
        n += 1
        kparam = [p for p in m.params if p != "self"][0]
        flow = flow_of(m.node)
        rs = ExprResolver(m.node, max_depth=20)
        props = [nd for nd in flow.cfg.stmt_nodes() if nd.kind == "stmt" and isinstance(nd.stmt, ast.Assign) and any(isinstance(x, ast.Call) and (ctx.res.external_name(m, x) or "").startswith("numpy.random.") for x in ast.walk(nd.stmt.value))]
        if len(props) != 1:
            raise AnalysisError(f"C03.f: expected one proposal statement in {m.short}")
        pn = props[0]
        terms = signed_terms(_unwrap_boundary_map(ctx, m, pn.stmt.value))
        # hoisted locals (`origin = self.u[k]`) are read through
        terms = [(sg, t if norm_text(t) == f"self.u[{kparam}]" or not isinstance(t, ast.Name) else rs.resolve(t, pn)) for (sg, t) in terms]
        cur = [(sg, t) for (sg, t) in terms if norm_text(t) == f"self.u[{kparam}]"]
        noise = [(sg, t) for (sg, t) in terms if any(isinstance(x, ast.Call) and (ctx.res.external_name(m, x) or "").startswith("numpy.random.") for x in ast.walk(t))]
        ok = len(terms) == 2 and len(cur) == 1 and cur[0][0] == 1 and len(noise) == 1
        R.check("C03.f", f"{m.short}: proposal = current point + noise with coefficient exactly 1 on the current point", ok, m, pn.stmt,
                msg=f"{m.short}: `{unparse(pn.stmt)[:80]}` is not self.u[{kparam}] + noise", key="rw-unit-coefficient")
        if noise:
            rt = rs.resolve(noise[0][1], pn)
            dep_u = any(isinstance(x, ast.Attribute) and dotted(x) in ("self.u", "self.x", "self.logl") for x in ast.walk(rt))
            R.check("C03.f", f"{m.short}: the noise scale does not depend on the current point", not dep_u, m, pn.stmt,
                    msg=f"{m.short}: noise term `{unparse(rt)[:80]}` depends on the current state: the proposal is not symmetric but the correction is zero", key="rw-state-independent-noise")
            zc = [x for x in ast.walk(rt) if isinstance(x, ast.Call) and (ctx.res.external_name(m, x) or "").startswith("numpy.random.")]
            sym = all((ctx.res.external_name(m, z) or "") in ("numpy.random.randn", "numpy.random.standard_normal", "numpy.random.normal", "numpy.random.standard_t", "numpy.random.uniform") for z in zc)
            if any((ctx.res.external_name(m, z) or "") == "numpy.random.uniform" for z in zc):
                sym = all(len(z.args) >= 2 and norm_text(z.args[0]) == "-" + norm_text(z.args[1]) for z in zc)
            R.check("C03.f", f"{m.short}: the innovation law is symmetric about zero", sym, m, pn.stmt, msg=f"{m.short}: innovation `{unparse(zc[0]) if zc else None}` is not a zero-mean symmetric law", key="rw-symmetric-law")
    R.floor("C03.f", "kernels with identically zero correction", n, 1)


def _unwrap_boundary_map(ctx: Context, m: FuncInfo, e: ast.expr) -> ast.expr:
    """`apply_boundary_conditions(E, periodic, reflective)` -> E: the proposal law is that of E; the fold is the
    boundary map's own business (C16) and where it is applied C07.c's."""
    try:
        from .c07 import bounds_helpers

        bmap, _pred = bounds_helpers(ctx)
    except Exception:
        bmap = None
    if isinstance(e, ast.Call) and e.args and ((bmap is not None and bmap in [t for t in ctx.res.call_targets(m, e) if isinstance(t, FuncInfo)]) or dotted(e.func).split(".")[-1] == "apply_boundary_conditions"):
        return e.args[0]
    return e


def rule_g(ctx: Context, R: Reporter, base: ClassInfo, subs: List[ClassInfo]):
    """C03.g  the Markov kernel of one run is a *fixed* kernel: the quantities that parametrise the proposal and the
    acceptance ratio -- the walkers' mode labels and the per-mode statistics -- are set by the constructor and never
    re-bound or modified by the running kernel.  A label (or a statistic) that follows the walker's position makes the
    proposal state-dependent in a way the acceptance ratio does not account for (the reverse move is proposed with
    other statistics), so the target is no longer invariant.  (The step size sigma is adapted between steps from the
    acceptance rate alone; that is the repository's own diminishing adaptation and is not covered here.)"""
    fixed = {"assignments", "mode_stats", "n_clusters"}
    for c in [base] + subs:
        fixed |= {k.split(".", 1)[1] for k in _mode_attr_sources(ctx, c)}
    n = 0
    n_attrs = 0
    for c in [base] + subs:
        for m in c.methods.values():
            for st in walk_no_nested(m.node):
                tgs = []
                if isinstance(st, ast.Assign):
                    tgs = [x for t in st.targets for x in (t.elts if isinstance(t, (ast.Tuple, ast.List)) else [t])]
                elif isinstance(st, (ast.AugAssign, ast.AnnAssign)):
                    tgs = [st.target]
                elif isinstance(st, ast.Expr) and isinstance(st.value, ast.Call) and isinstance(st.value.func, ast.Attribute) and st.value.func.attr in ("fill", "sort", "put", "resize", "update", "append", "extend"):
                    tgs = [st.value.func.value]
                for t in tgs:
                    b = t
                    sub = False
                    while isinstance(b, ast.Subscript):
                        b = b.value
                        sub = True
                    if isinstance(b, ast.Attribute) and isinstance(b.value, ast.Name) and b.value.id == "self" and b.attr in fixed:
                        n += 1
                        ok = m.name == "__init__" and not sub
                        R.check("C03.g", f"`self.{b.attr}` (labels / mode statistics of the kernel) is set by the constructor only", ok, m, st,
                                msg=f"{m.short}: `{unparse(st)[:70]}` changes `self.{b.attr}` while the kernel runs: the mode that drives a walker's proposal and Student-t correction then "
                                    f"depends on the walker's state, but the acceptance ratio treats it as fixed -- detailed balance with respect to the tempered target is lost",
                                key=f"kernel-parameter-rebound:{c.name}.{b.attr}" if not ok else f"kernel-parameter:{c.name}.{b.attr}:{m.name}")
    R.floor("C03.g", "bindings of the kernel's labels / mode statistics", n, 4)


def rule_h(ctx: Context, R: Reporter, base: ClassInfo, subs: List[ClassInfo]):
    """C03.h  numpy contract in the kernels: no store through chained advanced indexing (`a[idx][mask] = v` writes into a
    temporary copy and leaves `a` unchanged).  In a proposal routine that is how re-drawn, in-bounds proposals get lost
    and the first, out-of-bounds draw is offered to the Metropolis test instead."""
    from ..util import lost_fancy_stores

    n = 0
    for c in [base] + subs:
        for m in c.methods.values():
            n += 1
            for (st, idx, why) in lost_fancy_stores(m.node):
                R.check("C03.h", "no store goes through chained advanced indexing", False, m, st,
                        msg=f"{m.short}: `{unparse(st)[:70]}` assigns through `[{idx}]`, which is {why}: advanced indexing returns a copy, so the store is lost and the array keeps its "
                            f"old rows (e.g. proposals that failed the bounds test are kept and offered to the acceptance step)", key=f"lost-fancy-store:{m.short}")
    R.check("C03.h", "kernel methods scanned for lost stores", True, None, None, key="lost-fancy-store-scan")
    R.floor("C03.h", "kernel methods scanned", n, 8)


def rule_i(ctx: Context, R: Reporter, base: ClassInfo, subs: List[ClassInfo]):
    """C03.i  the kernel works on its own copy of the ensemble: an attribute that the runner updates in place
    (`self.logl[mask] = ...`) never aliases an array the caller passed in (np.asarray / a view keep the caller's memory).
    Otherwise one mutation overwrites the caller's current log-likelihoods while u and x stay, and the next Metropolis
    ratio on the same ensemble compares against values that belong to other positions."""
    from ..fresh import attr_alias_writes

    n = 0
    for c in [base] + subs:
        n += 1
        for (m, st, attr, ip) in attr_alias_writes(ctx, c):
            R.check("C03.i", "arrays the kernel updates in place are its own copies", False, m, st,
                    msg=f"{m.short}: `{unparse(st)[:60]}` can leave `self.{attr}` aliasing the caller's array, and `{unparse(ip)[:50]}` writes into it in place: after one call the caller's "
                        f"{attr} no longer belong to its positions, so a second mutation of the same ensemble uses a wrong current value in the acceptance ratio", key=f"caller-array-write:attr:{c.name}.{attr}")
    R.check("C03.i", "kernel classes scanned for in-place writes into caller-owned arrays", True, None, None, key="attr-alias-scan")
    R.floor("C03.i", "kernel classes scanned", n, 3)


def rule_j(ctx: Context, R: Reporter, base: ClassInfo, subs: List[ClassInfo]):
    """C03.j  one set of mode statistics per kernel: every per-mode statistic (an array the mode-statistics constructor
    stores, or a property derived from one) that the acceptance correction reads is one the proposal reads too.  The
    correction is the ratio of the proposal's own density at the two end points; evaluated with a floored / transformed
    copy of a parameter the proposal draws with, it is the density of a different law and the target is not invariant."""
    from .c14 import mode_class

    mc = mode_class(ctx)
    init = mc.methods["__init__"]
    stats = {t.attr for st in walk_no_nested(init.node) if isinstance(st, (ast.Assign, ast.AnnAssign)) for t in (st.targets if isinstance(st, ast.Assign) else [st.target])
             if isinstance(t, ast.Attribute) and isinstance(t.value, ast.Name) and t.value.id == "self"}
    scalar_props = set()
    for m in mc.methods.values():
        if any(isinstance(d, ast.Name) and d.id == "property" for d in m.node.decorator_list):
            rets = [r.value for r in walk_no_nested(m.node) if isinstance(r, ast.Return) and r.value is not None]
            shape_only = rets and all(any(isinstance(x, ast.Attribute) and x.attr == "shape" for x in ast.walk(r)) or (isinstance(r, ast.Call) and isinstance(r.func, ast.Name) and r.func.id == "len") for r in rets)
            (scalar_props if shape_only else stats).add(m.name)
    # a property that merely hands out a stored statistic (possibly re-shaped / copied) is that statistic
    same_as = {}
    for m in mc.methods.values():
        if m.name in stats and any(isinstance(d, ast.Name) and d.id == "property" for d in m.node.decorator_list):
            rets = [r.value for r in walk_no_nested(m.node) if isinstance(r, ast.Return) and r.value is not None]
            if len(rets) == 1:
                core = rets[0]
                while isinstance(core, ast.Call) and isinstance(core.func, ast.Attribute) and core.func.attr in ("copy", "view", "astype", "reshape") and not isinstance(core.func.value, ast.Name):
                    core = core.func.value
                if isinstance(core, ast.Call) and dotted(core.func) in ("np.asarray", "np.array", "numpy.asarray", "numpy.array") and core.args:
                    core = core.args[0]
                if isinstance(core, ast.Attribute) and isinstance(core.value, ast.Name) and core.value.id == "self":
                    same_as[m.name] = core.attr
    for st in walk_no_nested(init.node):
        if isinstance(st, ast.Assign) and len(st.targets) == 1 and isinstance(st.targets[0], ast.Attribute) and isinstance(st.targets[0].value, ast.Name) and st.targets[0].value.id == "self" \
                and isinstance(st.value, ast.Attribute) and isinstance(st.value.value, ast.Name) and st.value.value.id == "self" and st.value.attr in stats and st.targets[0].attr != st.value.attr:
            same_as[st.targets[0].attr] = same_as.get(st.value.attr, st.value.attr)
    n = 0
    for c in subs:
        prop = ctx.prog.mro_lookup(c, "_propose")
        corr = ctx.prog.mro_lookup(c, "_compute_acceptance_factor")
        if prop is None or corr is None or corr.cls is not c:
            continue
        alias = _mode_attr_sources(ctx, c)

        def sources(m):
            out = {}
            for x in walk_no_nested(m.node):
                if isinstance(x, ast.Attribute) and isinstance(x.ctx, ast.Load):
                    d = dotted(x)
                    if d in alias and alias[d] in stats:
                        out.setdefault(same_as.get(alias[d], alias[d]), x)
                    elif isinstance(x.value, ast.Attribute) and dotted(x.value) == "self.mode_stats" and x.attr in stats:
                        out.setdefault(same_as.get(x.attr, x.attr), x)
            return out

        ps, cs = sources(prop), sources(corr)
        if not cs:
            continue  # a kernel without a mode-dependent correction (symmetric random walk)
        n += 1
        extra = sorted(set(cs) - set(ps))
        R.check("C03.j", f"{c.name}: the correction reads only per-mode statistics that the proposal is drawn with", not extra, corr, cs[extra[0]] if extra else corr.node,
                msg=f"{corr.short}: the correction reads `{extra[0] if extra else ''}` of the mode statistics, which the proposal ({prop.short}, reading {sorted(ps)}) does not use: the density ratio "
                    f"in the acceptance probability is then not the ratio of the law the proposal was drawn from", key=f"one-parameter-set:{c.name}")
    R.floor("C03.j", "kernels with a mode-dependent correction", n, 1)


def run(ctx: Context, R: Reporter):
    base, subs = kernels(ctx)
    R.guard(rule_a, ctx, R, subs)
    R.guard(rule_bc, ctx, R, base, subs)
    R.guard(rule_de, ctx, R, subs)
    R.guard(rule_f, ctx, R, subs)
    R.guard(rule_g, ctx, R, base, subs)
    R.guard(rule_h, ctx, R, base, subs)
    R.guard(rule_i, ctx, R, base, subs)
    R.guard(rule_j, ctx, R, base, subs)


def variants():
    from ..variants import Variant, alpha_rename, chain, insert_before_function, replace_expr, replace_stmt

    mc = "tempest/mcmc.py"
    T = "TPCNRunner"
    from ..variants import insert_after as _ia

    return [
        Variant("j-correction-floors-dof-alone", "bad", chain(_ia("tempest/modes.py", "ModeStatistics.__init__", "self.means = np.asarray(means)", "self.safe_degrees_of_freedom = np.maximum(degrees_of_freedom, 1.0)"),
                                                               replace_stmt("tempest/mcmc.py", "TPCNRunner._compute_acceptance_factor", "means_assigned = self.means[self.assignments]",
                                                                            "means_assigned = self.means[self.assignments]\ndof_a = self.mode_stats.safe_degrees_of_freedom[self.assignments]"),
                                                               replace_expr("tempest/mcmc.py", "TPCNRunner._compute_acceptance_factor", "np.log(1 + dot_prime / self.degrees_of_freedom[self.assignments])", "np.log(1 + dot_prime / dof_a)")), ["C03.j"], quick=True),
        Variant("j-benign-correction-through-trivial-property", "benign", chain(replace_expr("tempest/mcmc.py", "TPCNRunner._compute_acceptance_factor", "np.log(1 + dot_prime / self.degrees_of_freedom[self.assignments])", "np.log(1 + dot_prime / self.mode_stats.dof[self.assignments])"),
                                                                                 replace_expr("tempest/mcmc.py", "TPCNRunner._compute_acceptance_factor", "np.log(1 + dot_products / self.degrees_of_freedom[self.assignments])", "np.log(1 + dot_products / self.mode_stats.dof[self.assignments])"),
                                                                                 _ia("tempest/modes.py", "ModeStatistics.__init__", "self.means = np.asarray(means)", "self.dof = self.degrees_of_freedom"))),
        Variant("j-benign-correction-reads-mode-stats-directly", "benign", replace_expr("tempest/mcmc.py", "TPCNRunner._compute_acceptance_factor", "np.log(1 + dot_prime / self.degrees_of_freedom[self.assignments])",
                                                                                         "np.log(1 + dot_prime / self.mode_stats.degrees_of_freedom[self.assignments])")),

        Variant("g-relabel-accepted-walkers", "bad", _ia(mc, "BaseMCMCRunner.run", "self.logl[mask_accept] = logl_prime[mask_accept]", "self.assignments[mask_accept] = np.argmin(np.linalg.norm(self.u[mask_accept][:, None, :] - self.mode_stats.means[None, :, :], axis=2), axis=1)"), ["C03.g"], quick=True),
        Variant("i-logl-aliases-callers-array", "bad", replace_stmt(mc, "BaseMCMCRunner.__init__", "self.logl = logl.copy()", "self.logl = np.asarray(logl, dtype=float)"), ["C03.i"], quick=True),
        Variant("i-benign-logl-np-array-copy", "benign", replace_stmt(mc, "BaseMCMCRunner.__init__", "self.logl = logl.copy()", "self.logl = np.array(logl, dtype=float)")),
        # the kernel's own position array: new arrays only (it is updated in place on acceptance)
        Variant("i-benign-u-np-copy", "benign", replace_stmt(mc, "BaseMCMCRunner.__init__", "self.u = u.copy()", "self.u = np.copy(u)")),
        Variant("i-benign-u-np-array-copy-true", "benign", replace_stmt(mc, "BaseMCMCRunner.__init__", "self.u = u.copy()", "self.u = np.array(u, copy=True)")),
        Variant("i-benign-u-astype-default", "benign", replace_stmt(mc, "BaseMCMCRunner.__init__", "self.u = u.copy()", "self.u = u.astype(float)")),
        Variant("i-u-is-alias-np-array-copy-false", "bad", replace_stmt(mc, "BaseMCMCRunner.__init__", "self.u = u.copy()", "self.u = np.array(u, copy=False)"), ["C03.i"]),
        Variant("i-u-is-alias-view", "bad", replace_stmt(mc, "BaseMCMCRunner.__init__", "self.u = u.copy()", "self.u = u.view()"), ["C03.i"]),
        Variant("i-u-is-alias-ellipsis-slice", "bad", replace_stmt(mc, "BaseMCMCRunner.__init__", "self.u = u.copy()", "self.u = u[...]"), ["C03.i"]),
        Variant("i-u-is-alias-reshape-same", "bad", replace_stmt(mc, "BaseMCMCRunner.__init__", "self.u = u.copy()", "self.u = u.reshape(u.shape)"), ["C03.i"]),
        Variant("i-u-is-alias-astype-copy-false", "bad", replace_stmt(mc, "BaseMCMCRunner.__init__", "self.u = u.copy()", "self.u = u.astype(float, copy=False)"), ["C03.i"]),
        Variant("i-u-is-alias-ascontiguous", "bad", replace_stmt(mc, "BaseMCMCRunner.__init__", "self.u = u.copy()", "self.u = np.ascontiguousarray(u)"), ["C03.i"]),
        Variant("i-u-is-alias-atleast-2d", "bad", replace_stmt(mc, "BaseMCMCRunner.__init__", "self.u = u.copy()", "self.u = np.atleast_2d(u)"), ["C03.i"]),
        Variant("h-redraw-lost-in-copy", "bad", _ia(mc, "BaseMCMCRunner.run", "u_prime[k] = self._propose(k)", "bad = np.flatnonzero(~check_bounds(u_prime, self.periodic, self.reflective))\ninside = check_bounds(u_prime[bad], self.periodic, self.reflective)\nu_prime[bad][inside] = 0.5"), ["C03.h"], quick=True),
        Variant("h-benign-redraw-stored-by-index", "benign", _ia(mc, "BaseMCMCRunner.run", "u_prime[k] = self._propose(k)", "bad = np.flatnonzero(~check_bounds(u_prime, self.periodic, self.reflective))\ninside = check_bounds(u_prime[bad], self.periodic, self.reflective)\nu_prime[bad[inside]] = u_prime[bad[inside]]")),
        Variant("g-benign-local-label-view", "benign", _ia(mc, "BaseMCMCRunner.run", "self.logl[mask_accept] = logl_prime[mask_accept]", "labels_now = self.assignments[mask_accept]")),
        Variant("b-one-sided-const", "bad", replace_expr(mc, f"{T}._compute_acceptance_factor", "np.log(1 + dot_prime / self.degrees_of_freedom[self.assignments])", "np.log(1 + dot_prime / (self.degrees_of_freedom[self.assignments] + 1))"), ["C03.b"], quick=True),
        Variant("b-missing-one-plus", "bad", replace_expr(mc, f"{T}._compute_acceptance_factor", "np.log(1 + dot_products / self.degrees_of_freedom[self.assignments])", "np.log(dot_products / self.degrees_of_freedom[self.assignments])"), ["C03.b"]),
        Variant("c-sign-error", "bad", replace_stmt(mc, f"{T}._compute_acceptance_factor", "return -A + B", "return A - B"), ["C03.c"], quick=True),
        Variant("c-accept-flipped", "bad", replace_expr(mc, "BaseMCMCRunner.run", "u_rand < alpha", "u_rand > alpha"), ["C03.c"], quick=True),
        Variant("c-accept-nonstrict", "bad", replace_expr(mc, "BaseMCMCRunner.run", "u_rand < alpha", "u_rand <= alpha"), ["C03.c"]),
        Variant("c-likelihood-ratio-inverted", "bad", replace_expr(mc, "BaseMCMCRunner.run", "self.beta * (logl_prime - self.logl) + alpha", "self.beta * (self.logl - logl_prime) + alpha"), ["C03.c"]),
        Variant("c-untempered", "bad", replace_expr(mc, "BaseMCMCRunner.run", "self.beta * (logl_prime - self.logl) + alpha", "logl_prime - self.logl + alpha"), ["C03.c"]),
        Variant("c-no-correction", "bad", replace_expr(mc, "BaseMCMCRunner.run", "self.beta * (logl_prime - self.logl) + alpha", "self.beta * (logl_prime - self.logl)"), ["C03.c"]),
        Variant("d-missing-sqrt", "bad", replace_expr(mc, f"{T}._propose", "np.sqrt(1.0 - sigma ** 2.0)", "(1.0 - sigma ** 2.0)"), ["C03.d"], quick=True),
        Variant("d-noise-no-sqrt-s", "bad", replace_expr(mc, f"{T}._propose", "sigma * np.sqrt(s)", "sigma * s"), ["C03.d"]),
        Variant("e-gamma-shape", "bad", replace_expr(mc, f"{T}._propose", "(self.n_dim + self.degrees_of_freedom[self.assignments[k]]) / 2", "self.degrees_of_freedom[self.assignments[k]] / 2"), ["C03.e"], quick=True),
        Variant("e-gamma-scale", "bad", replace_expr(mc, f"{T}._propose", "2.0 / (self.degrees_of_freedom[self.assignments[k]] + dot_product)", "1.0 / (self.degrees_of_freedom[self.assignments[k]] + dot_product)"), ["C03.e"]),
        Variant("e-wrong-cluster-index", "bad", replace_expr(mc, f"{T}._propose", "self.degrees_of_freedom[self.assignments[k]] + dot_product", "self.degrees_of_freedom[k] + dot_product"), ["C03.e"]),
        Variant("f-rwm-contraction", "bad", replace_expr(mc, "RWMRunner._propose", "self.u[k] + sigma * chol_cov @ np.random.randn(self.n_dim)", "0.99 * self.u[k] + sigma * chol_cov @ np.random.randn(self.n_dim)"), ["C03.f", "ANALYSIS-ERROR"], quick=True),
        Variant("f-rwm-state-dependent", "bad", replace_expr(mc, "RWMRunner._propose", "sigma * chol_cov @ np.random.randn(self.n_dim)", "sigma * (1.0 + self.u[k][0]) * chol_cov @ np.random.randn(self.n_dim)"), ["C03.f", "ANALYSIS-ERROR"]),
        Variant("benign-rename-A", "benign", alpha_rename(mc, f"{T}._compute_acceptance_factor", "A", "log_t_new"), quick=True),
        Variant("benign-return-order", "benign", replace_stmt(mc, f"{T}._compute_acceptance_factor", "return -A + B", "return B - A")),
        Variant("benign-hoist-nu", "benign", replace_stmt(mc, f"{T}._propose", "gamma_shape = (self.n_dim + self.degrees_of_freedom[self.assignments[k]]) / 2", "nu_k = self.degrees_of_freedom[self.assignments[k]]\ngamma_shape = (self.n_dim + nu_k) / 2")),
    ]
