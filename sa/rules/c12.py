"""C12  run() postconditions and the posterior()/evidence() contract.

  C12.a  postcondition = negated loop guard: the sampling loop's only exit is its
         guard; the guard function returns False only when both
         `1 - beta < tol` (tol <= 1e-4) and `ess >= n_total` hold, with ess the
         ESS of weights from compute_logw_and_logz(1.0) over the whole history;
         nothing after the loop writes beta or commits history
  C12.b  evidence(): after the loop logz is the second result of
         compute_logw_and_logz(1.0), stored under `logz`, not overwritten, and
         the evidence accessor returns that key
  C12.c  row alignment of posterior(): every returned per-sample array has the
         same index history; weights are re-derived with every index
  C12.d  return-shape table (x, weights, logl[, blobs][, logw])
"""
from __future__ import annotations

import ast
import itertools
from typing import Dict, List, Optional, Set, Tuple

from ..cfg import cfg_of
from ..dataflow import Resolver as ExprResolver
from ..dataflow import expr_leaves, flow_of, select_path
from ..engine import Context, Reporter
from ..model import AnalysisError, FuncInfo, dotted, norm_text, walk_no_nested
from ..records import Tagger, name_tag
from ..util import call_arg, calls_in, calls_in_node, const_value, is_const, unparse

PROP = "C12"
EXPLANATION = (
    "Decides, from the control-flow graph of the run driver and a truth table over the atoms of the termination "
    "predicate, that run() can only return when 1-beta < 1e-4 and ESS(weights at beta=1 over the whole history) >= "
    "n_total; that the stored evidence is the second result of compute_logw_and_logz(1.0) and is what evidence() "
    "returns; and, by an index-history analysis of posterior(), that all returned per-sample arrays are indexed by "
    "the same trimming/resampling index definitions, with weights re-derived alongside. Termination of the loop and "
    "numerical values are not decided."
)
ASSUMPTIONS = ["effective_sample_size/compute_logw_and_logz compute what C20/C04 decide about them", "the loop terminates (not decided)"]


def run_driver(ctx: Context) -> Tuple[FuncInfo, object]:
    from .c09 import run_driver as rd

    ds = rd(ctx)
    if not ds:
        raise AnalysisError("C12: run driver not found")
    fi, loops, loads = ds[0]
    return fi, loops[0]


def _weights_fn(ctx: Context) -> FuncInfo:
    sc = ctx.state.state_cls
    for m in sc.methods.values():
        reads = {a.key for a in ctx.state.in_func(m) if a.mode == "read" and a.space == "history"}
        if {"beta", "logz", "logl"} <= reads and any(isinstance(r.value, ast.Tuple) for r in walk_no_nested(m.node) if isinstance(r, ast.Return) and r.value is not None):
            return m
    raise AnalysisError("C12: weight function (reads history beta/logz/logl, returns a pair) not found")


# ------------------------------------------------------------------ C12.a
def _bool_atoms(e: ast.expr, atoms: List[ast.expr]):
    """Boolean skeleton over comparison atoms."""
    if isinstance(e, ast.BoolOp):
        subs = [_bool_atoms(v, atoms) for v in e.values]
        if isinstance(e.op, ast.Or):
            return lambda val, subs=subs: any(s(val) for s in subs)
        return lambda val, subs=subs: all(s(val) for s in subs)
    if isinstance(e, ast.UnaryOp) and isinstance(e.op, ast.Not):
        s = _bool_atoms(e.operand, atoms)
        return lambda val, s=s: not s(val)
    if isinstance(e, ast.Constant) and isinstance(e.value, bool):
        return lambda val, c=e.value: c
    if isinstance(e, ast.Compare) and len(e.ops) > 1:
        # chained comparison a < b < c == (a < b) and (b < c)
        parts = []
        left = e.left
        for op, right in zip(e.ops, e.comparators):
            parts.append(ast.Compare(left=left, ops=[op], comparators=[right]))
            left = right
        subs = [_bool_atoms(p, atoms) for p in parts]
        return lambda val, subs=subs: all(s(val) for s in subs)
    key = norm_text(e)
    for i, a in enumerate(atoms):
        if norm_text(a) == key:
            return lambda val, i=i: val[i]
    atoms.append(e)
    i = len(atoms) - 1
    return lambda val, i=i: val[i]


def _classify_atom(ctx, fi: FuncInfo, a: ast.expr, at, weights_fn: FuncInfo):
    """('beta', c, op) for `1 - beta OP c`; ('ess', op) for `ess OP n_total`."""
    if not (isinstance(a, ast.Compare) and len(a.ops) == 1):
        return None
    rs = ExprResolver(fi.node)
    l = rs.resolve(a.left, at)
    r = rs.resolve(a.comparators[0], at)
    op = type(a.ops[0]).__name__

    def is_one_minus_beta(e):
        if isinstance(e, ast.BinOp) and isinstance(e.op, ast.Sub) and const_value(e.left) in (1, 1.0):
            return _reads_key(e.right, "beta", exact=True)
        return False

    def tol(e):
        v = const_value(e)
        if isinstance(v, (int, float)):
            return float(v)
        if isinstance(e, ast.Name):
            c = fi.module.constants.get(e.id)
            r0 = ctx.prog.resolve_name(fi.module, e.id)
            if isinstance(r0, tuple) and r0[0] == "const":
                c = r0[1].constants[r0[2]]
            v = const_value(c) if c is not None else None
            if isinstance(v, (int, float)):
                return float(v)
        return None

    if is_one_minus_beta(l) and tol(r) is not None:
        return ("beta", tol(r), op)
    if is_one_minus_beta(r) and tol(l) is not None:
        return ("beta", tol(l), _flip(op))
    # ess vs n_total
    def is_ess(e):
        for c in ast.walk(e):
            if isinstance(c, ast.Call):
                tg = ctx.res.call_targets(fi, c)
                if any(isinstance(t, FuncInfo) and t.name in ("effective_sample_size",) for t in tg):
                    return c
        return None

    def is_ntotal(e):
        return any((isinstance(x, ast.Attribute) and x.attr == "n_total") or (isinstance(x, ast.Constant) and x.value == "n_total") for x in ast.walk(e))

    def exact(e, call) -> bool:
        """the ESS itself (possibly through float()), not a rounded / shifted / scaled version of it"""
        while isinstance(e, ast.Call) and dotted(e.func) in ("float", "np.float64", "numpy.float64") and len(e.args) == 1:
            e = e.args[0]
        return e is call

    if is_ess(l) is not None and is_ntotal(r):
        return ("ess", op, is_ess(l)) if exact(l, is_ess(l)) else ("ess-lossy", op, is_ess(l), l)
    if is_ess(r) is not None and is_ntotal(l):
        return ("ess", _flip(op), is_ess(r)) if exact(r, is_ess(r)) else ("ess-lossy", _flip(op), is_ess(r), r)
    return None


def _flip(op):
    return {"Lt": "Gt", "Gt": "Lt", "LtE": "GtE", "GtE": "LtE", "Eq": "Eq", "NotEq": "NotEq"}[op]


def _reads_key(e: ast.expr, key: str, exact=False) -> bool:
    if exact:
        c = e
        return isinstance(c, ast.Call) and isinstance(c.func, ast.Attribute) and c.func.attr == "get_current" and isinstance(call_arg(c, 0, "key"), ast.Constant) and call_arg(c, 0, "key").value == key
    return any(_reads_key(c, key, True) for c in ast.walk(e))


def rule_a(ctx: Context, R: Reporter):
    fi, loop = run_driver(ctx)
    cfg = cfg_of(fi.node)
    flow = flow_of(fi.node)
    wfn = _weights_fn(ctx)
    # single exit: no break inside the loop; the loop body cannot reach the code after the loop except via the guard
    body = cfg.loop_body(loop.id)
    exits = [(a, b) for a in body for (b, lab) in cfg.succ[a] if b not in body and b != cfg.raise_exit.id]
    only_guard = all(a == loop.id for (a, b) in exits)
    R.check("C12.a", "the sampling loop is left only through its guard", only_guard, fi, loop.stmt,
            msg=f"{fi.short}: the sampling loop has an exit other than its guard ({[repr(cfg.nodes[a]) for (a, b) in exits if a != loop.id][:3]})", key="loop-single-exit")
    # guard = not-termination predicate call
    guard_calls = [c for c in ast.walk(loop.ast) if isinstance(c, ast.Call)]
    gfuncs = [t for c in guard_calls for t in ctx.res.call_targets(fi, c) if isinstance(t, FuncInfo)]
    neg = isinstance(loop.ast, ast.UnaryOp) and isinstance(loop.ast.op, ast.Not)
    if len(gfuncs) != 1 or not (isinstance(loop.ast, ast.Call) or (neg and isinstance(loop.ast.operand, ast.Call))):
        raise AnalysisError(f"C12.a: loop guard `{unparse(loop.ast)}` is not a single predicate call (unmodelled)")
    g = gfuncs[0]
    gflow = flow_of(g.node)
    rets = [n for n in gflow.cfg.stmt_nodes() if n.kind == "stmt" and isinstance(n.stmt, ast.Return)]
    R.floor("C12.a", "return statements of the termination predicate", len(rets), 1)
    exit_value = True if neg else False  # value of the predicate for which the loop exits
    n_atoms = 0
    for rn in rets:
        v = rn.stmt.value
        if v is None:
            R.check("C12.a", "termination predicate returns a boolean expression", False, g, rn.stmt, msg=f"{g.short}: bare return")
            continue
        if isinstance(v, ast.Constant):
            ok = bool(v.value) != exit_value
            R.check("C12.a", "a constant return of the predicate keeps the loop running", ok, g, rn.stmt,
                    msg=f"{g.short}: `return {v.value}` ends the sampling loop without establishing beta ~ 1 and ESS >= n_total", key=f"const-return:{v.value}")
            continue
        rs = ExprResolver(g.node)
        rv = rs.resolve(v, rn)
        atoms: List[ast.expr] = []
        fn = _bool_atoms(rv, atoms)
        cls = [_classify_atom(ctx, g, a, rn, wfn) for a in atoms]
        n_atoms += len(atoms)
        if len(atoms) > 8:
            raise AnalysisError("C12.a: too many atoms in the termination predicate")
        for c_ in cls:
            if c_ and c_[0] == "ess-lossy":
                R.check("C12.a", "the ESS compared with n_total in the guard is the ESS itself", False, g, rn.stmt,
                        msg=f"{g.short}: the guard compares `{unparse(c_[3])[:60]}` with n_total, not the effective sample size itself: rounding / shifting the ESS lets the loop stop while "
                            f"the true ESS is still below n_total (e.g. anywhere in [n_total - 0.5, n_total) with round-to-nearest)", key="ess-lossy")
        beta_atoms = [i for i, c in enumerate(cls) if c and c[0] == "beta"]
        ess_atoms = [i for i, c in enumerate(cls) if c and c[0] == "ess"]
        implied_beta = bool(beta_atoms)
        implied_ess = bool(ess_atoms)
        for val in itertools.product([False, True], repeat=len(atoms)):
            if fn(val) != exit_value:
                continue
            # on exit: some beta atom must certify 1-beta < tol (tol <= 1e-4), some ess atom ess >= n_total
            ok_b = False
            for i in beta_atoms:
                _, tolv, op = cls[i]
                if tolv <= 1e-4 + 1e-18:
                    if (op in ("GtE", "Gt") and not val[i]) or (op in ("Lt", "LtE") and val[i]):
                        ok_b = True
            ok_e = False
            for i in ess_atoms:
                op = cls[i][1]
                if (op == "Lt" and not val[i]) or (op in ("GtE",) and val[i]) or (op == "Gt" and val[i]):
                    ok_e = True
            implied_beta = implied_beta and ok_b
            implied_ess = implied_ess and ok_e
        R.check("C12.a", "loop exit implies 1 - beta < tol with tol <= 1e-4", implied_beta, g, rn.stmt,
                msg=f"{g.short}: `{unparse(v)}` can be {exit_value} (loop exits) without `1 - beta < 1e-4` holding (atoms: {[unparse(a)[:50] for a in atoms]}, classified {[(c[0], c[1]) if c else None for c in cls]})",
                key="exit-implies-beta")
        R.check("C12.a", "loop exit implies ESS >= n_total", implied_ess, g, rn.stmt,
                msg=f"{g.short}: `{unparse(v)}` can be {exit_value} (loop exits) without `ess >= n_total` holding (atoms: {[unparse(a)[:50] for a in atoms]})",
                key="exit-implies-ess")
        # the ESS atom is computed from the posterior weights over the whole history
        for i in ess_atoms:
            call = cls[i][2]
            rarg = ExprResolver(g.node, proj=True).resolve(call.args[0], rn) if call.args else None
            ok_w = False
            if rarg is not None:
                for c in ast.walk(rarg):
                    if isinstance(c, ast.Call) and wfn in ctx.res.call_targets(g, c):
                        b = call_arg(c, 0, "beta_final")
                        if b is None:
                            d = wfn.param_default("beta_final")
                            b = d
                        if const_value(b) in (1, 1.0):
                            ok_w = True
            R.check("C12.a", "the ESS in the guard is that of the beta=1 weights over the whole history", ok_w, g, call,
                    msg=f"{g.short}: ESS argument `{unparse(call)[:70]}` is not derived from {wfn.name}(1.0)", key="ess-of-posterior-weights")
    R.analysed["C12.a:atoms"] = n_atoms
    # the n_total in the guard is the caller's argument: no call that (transitively) assigns self.n_total runs
    # between `self.n_total = <parameter>` and the loop
    setters = [n for n in cfg.stmt_nodes() if n.kind == "stmt" and isinstance(n.stmt, ast.Assign) and any(isinstance(t, ast.Attribute) and t.attr == "n_total" and isinstance(t.value, ast.Name) and t.value.id == "self" for t in n.stmt.targets)
               and any(isinstance(x, ast.Name) and x.id in fi.params for x in ast.walk(n.stmt.value))]
    clobber_funcs = set()
    for f2 in ctx.prog.functions.values():
        if f2 is fi or f2.cls is not fi.cls:
            continue
        if any(isinstance(x, ast.Assign) and any(isinstance(t, ast.Attribute) and t.attr == "n_total" and isinstance(t.value, ast.Name) and t.value.id == "self" for t in x.targets) for x in walk_no_nested(f2.node)):
            clobber_funcs.add(f2.qualname)
    from ..util import nodes_calling

    clob = [n for (n, c, h) in nodes_calling(ctx.cg, fi, lambda g: g.qualname in clobber_funcs)]
    R.check("C12.a", "run() stores the caller's n_total", bool(setters), fi, setters[0].stmt if setters else fi.node, msg=f"{fi.short}: self.n_total is never set from the n_total argument", key="n_total-set")
    for cn in clob:
        ok = not cfg.reaches(cn.id, loop.id, blocked=[s.id for s in setters])
        R.check("C12.a", "the caller's n_total is stored after anything that can overwrite it (checkpoint load)", ok, fi, cn.stmt,
                msg=f"{fi.short}: `{unparse(cn.ast)[:60]}` (which assigns self.n_total, e.g. from a checkpoint) can run after `self.n_total = n_total`: a resumed run terminates against the "
                    f"checkpoint's n_total instead of the requested one, so ESS >= n_total does not hold on return", key="n_total-clobbered")
    # nothing after the loop writes beta / commits
    after = {n.id for n in cfg.stmt_nodes() if cfg.reaches(loop.id, n.id) and n.id not in body}
    bad = []
    for n in cfg.stmt_nodes():
        if n.id not in after:
            continue
        for c in calls_in_node(n):
            for t in ctx.res.call_targets(fi, c):
                if isinstance(t, FuncInfo):
                    for f2 in ctx.cg.reachable([t]):
                        for a in ctx.state.accesses:
                            if a.func is f2 and a.mode == "write" and a.key in ("beta", "ess", "iter"):
                                bad.append((n, a))
                        if f2.name == "commit_current_to_history":
                            bad.append((n, None))
            if isinstance(c.func, ast.Attribute) and c.func.attr in ("set_current", "update_current"):
                for a in ctx.state.in_func(fi, include_nested=False):
                    if a.call is c and a.mode == "write" and a.key in ("beta", "ess", "iter"):
                        bad.append((n, a))
    R.check("C12.a", "between loop exit and return nothing writes beta/ess/iter or commits history", not bad, fi, loop.stmt,
            msg=f"{fi.short}: after the loop {[(repr(n), a.key if a else 'commit') for (n, a) in bad][:3]}", key="post-loop-writes")


# ------------------------------------------------------------------ C12.b
def rule_b(ctx: Context, R: Reporter):
    fi, loop = run_driver(ctx)
    cfg = cfg_of(fi.node)
    flow = flow_of(fi.node)
    wfn = _weights_fn(ctx)
    body = cfg.loop_body(loop.id)
    writes = []
    for a in ctx.state.in_func(fi, include_nested=False):
        n = flow.node_containing(a.call)
        if a.mode == "write" and a.key == "logz" and n is not None and n.id not in body and cfg.reaches(loop.id, n.id):
            writes.append((n, a))
    R.floor("C12.b", "logz writes after the loop", len(writes), 1)
    last = None
    for (n, a) in writes:
        if not any(cfg.reaches(n.id, m.id) for (m, _) in writes if m is not n):
            last = (n, a)
    if last is None:
        raise AnalysisError("C12.b: cannot order logz writes after the loop")
    n, a = last
    ok = False
    if isinstance(a.value, ast.Name):
        ds = flow.reaching(n, a.value.id)
        ok = bool(ds) and all(d.kind == "assign" and d.path == (1,) and isinstance(d.value, ast.Call) and wfn in ctx.res.call_targets(fi, d.value)
                              and const_value(call_arg(d.value, 0, "beta_final") or wfn.param_default("beta_final")) in (1, 1.0)
                              and cfg.reaches(loop.id, d.node.id) and d.node.id not in body for d in ds)
    if isinstance(a.value, ast.Subscript) and isinstance(a.value.value, ast.Call) and const_value(a.value.slice) in (1, -1):
        # compute(1.0)[1] written in the store itself
        c_ = a.value.value
        ok = wfn in ctx.res.call_targets(fi, c_) and const_value(call_arg(c_, 0, "beta_final") or wfn.param_default("beta_final")) in (1, 1.0)
    R.check("C12.b", "final logz is the evidence component of the weight function at beta=1, computed after the loop", ok, fi, a.call,
            msg=f"{fi.short}: the logz stored after the loop (`{unparse(a.value)}`) is not the second result of {wfn.name}(1.0) evaluated after the last iteration",
            key="final-logz")
    pd = cfg.postdominates(n.id, loop.id) or not cfg.reaches(loop.id, cfg.exit.id, blocked=[n.id])
    R.check("C12.b", "the final evidence is stored on every path from loop exit to return", pd, fi, a.call,
            msg=f"{fi.short}: some path from the loop exit to the return skips the final logz update", key="final-logz-all-paths")
    # ... and on every path from the entry: run() has no way out (e.g. an early return on the resume path when the
    # restored state already meets the stopping rule) that by-passes the final evidence
    early = cfg.reaches(cfg.entry.id, cfg.exit.id, blocked=[n.id])
    wit = None
    if early:
        p_ = cfg.find_path(cfg.entry.id, cfg.exit.id, blocked=[n.id])
        rets_ = [cfg.nodes[i] for i in (p_ or []) if cfg.nodes[i].kind == "stmt" and isinstance(cfg.nodes[i].stmt, ast.Return)]
        wit = rets_[-1].stmt if rets_ else None
    R.check("C12.b", "no return of run() by-passes the final evidence at beta=1", not early, fi, wit if wit is not None else a.call,
            msg=f"{fi.short}: a path from the entry reaches `{unparse(wit)[:40] if wit is not None else 'the end'}` without the final `logz` update: run() then returns with the evidence "
                f"of the last reweighting step (computed before the last batch was committed) -- and without the end-of-run bookkeeping that follows it", key="final-logz-from-entry")
    # evidence accessor returns key logz
    acc = [f for f in ctx.prog.functions.values() if f.cls is fi.cls and f is not fi and any(isinstance(r, ast.Return) and isinstance(r.value, ast.Tuple) and len(r.value.elts) == 2 for r in walk_no_nested(f.node))
           and any(x.mode == "read" and x.key == "logz" for x in ctx.state.in_func(f))]
    R.floor("C12.b", "evidence accessor", len(acc), 1)
    for f in acc:
        fl = flow_of(f.node)
        for r in walk_no_nested(f.node):
            if isinstance(r, ast.Return) and isinstance(r.value, ast.Tuple):
                rn = fl.node_containing(r)
                rx = ExprResolver(f.node).resolve(r.value.elts[0], rn)
                ok = isinstance(rx, ast.Call) and isinstance(rx.func, ast.Attribute) and rx.func.attr == "get_current" and const_value(call_arg(rx, 0, "key")) == "logz"
                R.check("C12.b", "evidence() returns the stored logz unchanged", ok, f, r,
                        msg=f"{f.short}: first component `{unparse(rx)[:60]}` is not the stored `logz`", key=f"evidence-returns-logz:{f.short}")


# ------------------------------------------------------------------ C12.c / d
class RetTuple:
    """One way a function returns a tuple: the return node and the element
    expressions in order.  Literal tuples give one RetTuple per return statement;
    `out = [a, b]; if p: out.append(c); return tuple(out)` gives one per distinct
    element sequence over the acyclic paths from the list's definition to the
    return (the single-exit spelling of several literal returns)."""

    def __init__(self, node, elts, stmt):
        self.node = node
        self.elts = elts
        self.stmt = stmt


def return_tuples(fi: FuncInfo) -> List[RetTuple]:
    flow = flow_of(fi.node)
    cfg = flow.cfg
    out: List[RetTuple] = []
    for n in cfg.stmt_nodes():
        if n.kind != "stmt" or not isinstance(n.stmt, ast.Return) or n.stmt.value is None:
            continue
        v = n.stmt.value
        if isinstance(v, ast.Tuple):
            out.append(RetTuple(n, list(v.elts), n.stmt))
            continue
        name = None
        if isinstance(v, ast.Call) and dotted(v.func) == "tuple" and len(v.args) == 1 and isinstance(v.args[0], ast.Name):
            name = v.args[0].id
        elif isinstance(v, ast.Name):
            name = v.id
        if name is None:
            continue
        # the initial display; `name += (x,)` / `name = name + (x,)` extensions are replayed along each path
        alld = [d for dl in flow.defs_at.values() for d in dl if d.name == name]
        defs = [d for d in alld if d.kind == "assign" and isinstance(d.value, (ast.List, ast.Tuple)) and not d.path]
        ext = [d for d in alld if d not in defs]

        def _ext_elts(d):
            if d.kind == "aug" and isinstance(d.value, ast.AugAssign) and isinstance(d.value.op, ast.Add) and isinstance(d.value.value, (ast.Tuple, ast.List)):
                return list(d.value.value.elts)
            if d.kind == "assign" and isinstance(d.value, ast.BinOp) and isinstance(d.value.op, ast.Add) and isinstance(d.value.left, ast.Name) and d.value.left.id == name \
                    and isinstance(d.value.right, (ast.Tuple, ast.List)):
                return list(d.value.right.elts)
            return None

        if len(defs) != 1 or any(_ext_elts(d) is None for d in ext) or not any(x is defs[0] for x in flow.reaching(n, name)) and not ext:
            continue
        d0 = defs[0]
        ext_at = {d.node.id: _ext_elts(d) for d in ext if d.node is not None}
        try:
            paths = cfg.acyclic_paths(d0.node.id, n.id, limit=4000)
        except OverflowError:
            continue
        seqs = {}
        for p in paths:
            elts = list(d0.value.elts)
            ok = True
            for (nid, lab) in p[1:]:
                nd = cfg.nodes[nid]
                if nid in ext_at and nid != n.id:
                    elts.extend(ext_at[nid])
                if nd.ast is None:
                    continue
                for c in ast.walk(nd.ast) if nd.kind in ("stmt",) else []:
                    if isinstance(c, ast.Call) and isinstance(c.func, ast.Attribute) and isinstance(c.func.value, ast.Name) and c.func.value.id == name:
                        if c.func.attr == "append" and len(c.args) == 1:
                            elts.append(c.args[0])
                        elif c.func.attr == "extend" and len(c.args) == 1 and isinstance(c.args[0], (ast.List, ast.Tuple)):
                            elts.extend(c.args[0].elts)
                        else:
                            ok = False
            if ok:
                seqs.setdefault(tuple(norm_text(e) for e in elts), elts)
        for elts in seqs.values():
            out.append(RetTuple(n, elts, n.stmt))
    return out


def posterior_fn(ctx: Context) -> FuncInfo:
    cands = []
    for fi in ctx.prog.functions.values():
        if not any(isinstance(r, ast.Return) and r.value is not None for r in walk_no_nested(fi.node)):
            continue
        rets = return_tuples(fi) if any(a.mode == "read" and a.space == "history" for a in ctx.state.in_func(fi)) else []
        reads = {a.key for a in ctx.state.in_func(fi) if a.mode == "read" and a.space == "history"}
        if len(rets) >= 2 and {"x", "logl"} <= reads:
            cands.append(fi)
    if len(cands) != 1:
        raise AnalysisError(f"C12.c: posterior function not identified uniquely ({[c.short for c in cands]})")
    return cands[0]


def index_history(fi: FuncInfo, name: str, at, _seen=None) -> Tuple[Set[int], Set[int]]:
    """(index-definition node ids applied to `name` on some path, source def ids)."""
    flow = flow_of(fi.node)
    seen = _seen if _seen is not None else set()
    applied: Set[int] = set()
    sources: Set[int] = set()
    for d in flow.reaching(at, name):
        if d.node is None or (d.node.id, name) in seen:
            continue
        seen.add((d.node.id, name))
        v = select_path(d.value, d.path) if (d.path and d.value is not None) else d.value
        if d.kind == "assign" and isinstance(v, ast.Subscript) and isinstance(v.value, ast.Name) and not isinstance(v.slice, (ast.Slice, ast.Constant)):
            if isinstance(v.slice, ast.Name):
                for idd in flow.reaching(d.node, v.slice.id):
                    applied.add(idd.node.id if idd.node is not None else -1)
            else:
                applied.add(-2)
            a2, s2 = index_history(fi, v.value.id, d.node, seen)
            applied |= a2
            sources |= s2
        else:
            sources.add(d.node.id)
    return applied, sources


def rule_c(ctx: Context, R: Reporter):
    fi = posterior_fn(ctx)
    flow = flow_of(fi.node)
    tg = Tagger(ctx, fi)
    rts = return_tuples(fi)
    R.floor("C12.c", "return tuples of posterior()", len(rts), 4)
    n_arr = 0
    for rt in rts:
        rn = rt.node
        elts = rt.elts
        hist: Dict[str, Set[int]] = {}
        for e in elts:
            if not isinstance(e, ast.Name):
                R.check("C12.c", "posterior() returns named arrays", False, fi, e, msg=f"{fi.short}: returns expression `{unparse(e)}`")
                continue
            t = tg.tag(e, rn) or name_tag(e.id)
            if t == "weights":
                continue
            applied, _ = index_history(fi, e.id, rn)
            hist[e.id] = applied
            n_arr += 1
        ref_name = next((e.id for e in elts if isinstance(e, ast.Name) and (tg.tag(e, rn) or name_tag(e.id)) == "x"), None)
        if ref_name is None:
            raise AnalysisError("C12.c: returned tuple has no x component")
        ref = hist[ref_name]
        for name, h in hist.items():
            ok = h == ref
            R.check("C12.c", f"returned `{name}` has the same index history as `{ref_name}`", ok, fi, rn.stmt,
                    msg=f"{fi.short}: `{name}` is returned with index history {_fmt(flow, h)} but `{ref_name}` with {_fmt(flow, ref)}: rows do not refer to the same particles "
                        f"(lengths differ after trimming/resampling)",
                    key=f"align:{name}:{len(elts)}")
        # weights re-derived with every index definition applied to x
        wname = next((e.id for e in elts if isinstance(e, ast.Name) and (tg.tag(e, rn) or name_tag(e.id)) == "weights"), None)
        if wname is None:
            R.check("C12.c", "posterior() returns weights", False, fi, rn.stmt, msg=f"{fi.short}: no weights in the returned tuple")
            continue
        wdefs = flow.reaching(rn, wname)
        for idx_def in sorted(ref):
            if idx_def < 0:
                continue
            idn = flow.cfg.nodes[idx_def]
            idx_names = {d.name for d in flow.defs_at.get(idx_def, [])}
            if wname in idx_names:
                ok = True  # tuple sibling: (idx, weights) = trim(...)
            else:
                good = []
                for nid, ds_ in flow.defs_at.items():
                    for wd in ds_:
                        if wd.name != wname or wd.value is None or wd.kind != "assign":
                            continue
                        names = {x.id for x in ast.walk(wd.value) if isinstance(x, ast.Name)} & idx_names
                        if names and all(any(dd.node is idn for dd in flow.reaching(wd.node, nm)) for nm in names):
                            good.append(nid)
                        elif not names and _derived_from(flow, wd.node, wd.value, idx_names, idn):
                            good.append(nid)
                ok = bool(good) and not flow.cfg.reaches(idx_def, rn.id, blocked=good)
            stale = []
            R.check("C12.c", f"weights are re-derived together with the index defined at line {idn.lineno}", ok and not stale, fi, idn.stmt,
                    msg=f"{fi.short}: samples are indexed by `{unparse(idn.stmt)[:60]}` but the returned weights are not re-derived with it",
                    key=f"weights-follow-index:{norm_text(idn.stmt)[:50]}:{len(elts)}")
    R.analysed["C12.c:arrays"] = n_arr
    # uniform weights after resampling
    for n in flow.cfg.stmt_nodes():
        if n.kind == "stmt" and isinstance(n.stmt, ast.Assign) and isinstance(n.stmt.value, ast.Call):
            tgts = [t for t in ctx.res.call_targets(fi, n.stmt.value) if isinstance(t, FuncInfo)]
            if any(t.name == "systematic_resample" for t in tgts):
                idx_names = {d.name for d in flow.defs_at.get(n.id, [])}
                found = False
                for m in flow.cfg.stmt_nodes():
                    if m.kind == "stmt" and isinstance(m.stmt, ast.Assign) and flow.cfg.reaches(n.id, m.id):
                        tnames = {t.id for t in m.stmt.targets if isinstance(t, ast.Name)}
                        if any((tg.tag(ast.Name(id=t, ctx=ast.Load()), m) or name_tag(t)) == "weights" for t in tnames):
                            v = m.stmt.value
                            leaves, _ = expr_leaves(fi.node, v, m)
                            uses_old_weights = any(isinstance(x, ast.Name) and name_tag(x.id) == "weights" for x in ast.walk(v))
                            uniform = _is_uniform(ctx, fi, flow, m, v)
                            found = True
                            R.check("C12.c", "after resampling the weights are uniform 1/len(idx)", uniform and not uses_old_weights, fi, m.stmt,
                                    msg=f"{fi.short}: after systematic resampling weights are `{unparse(v)[:60]}`, not ones(len(idx))/len(idx)", key="uniform-after-resample")
                R.check("C12.c", "weights are reset after resampling", found, fi, n.stmt,
                        msg=f"{fi.short}: no weights assignment follows the resampling index", key="weights-reset-after-resample")


def _derived_from(flow, node, expr, idx_names, idn, _depth=0) -> bool:
    """`expr` mentions, through locals that each have one reaching definition, a name defined at `idn`."""
    if _depth > 4:
        return False
    for x in ast.walk(expr):
        if not isinstance(x, ast.Name):
            continue
        ds = flow.reaching(node, x.id)
        if x.id in idx_names:
            if ds and all(dd.node is idn for dd in ds):
                return True
            continue
        if len(ds) == 1 and ds[0].kind == "assign" and ds[0].value is not None and ds[0].node is not None and not ds[0].path:
            if _derived_from(flow, ds[0].node, ds[0].value, idx_names, idn, _depth + 1):
                return True
    return False


def _subst_lengths(flow, node, e, _depth=0):
    """Replace a local that has one reaching definition `n = len(..)` / `.shape[0]` / `.size` by that expression."""
    if _depth > 3:
        return e

    class S(ast.NodeTransformer):
        def visit_Name(self, nm):
            ds = flow.reaching(node, nm.id)
            if len(ds) == 1 and ds[0].kind == "assign" and ds[0].value is not None and ds[0].node is not None and not ds[0].path:
                v = ds[0].value
                if (isinstance(v, ast.Call) and isinstance(v.func, ast.Name) and v.func.id == "len") \
                        or (isinstance(v, ast.Attribute) and v.attr == "size") \
                        or (isinstance(v, ast.Subscript) and isinstance(v.value, ast.Attribute) and v.value.attr == "shape"):
                    return _subst_lengths(flow, ds[0].node, v, _depth + 1)
            return nm
    import copy
    return S().visit(copy.deepcopy(e))


def _len_text(e) -> str:
    """Canonical text of a length expression: len(a), a.shape[0], a.size (1-D index) name the same count."""
    if isinstance(e, ast.Call) and isinstance(e.func, ast.Name) and e.func.id == "len" and len(e.args) == 1:
        return "len:" + norm_text(e.args[0])
    if isinstance(e, ast.Subscript) and isinstance(e.value, ast.Attribute) and e.value.attr == "shape" \
            and isinstance(e.slice, ast.Constant) and e.slice.value == 0:
        return "len:" + norm_text(e.value.value)
    if isinstance(e, ast.Call) and isinstance(e.func, ast.Name) and e.func.id in ("float", "int") and len(e.args) == 1:
        return _len_text(e.args[0])
    return "expr:" + norm_text(e)


def _is_one(e) -> bool:
    return isinstance(e, ast.Constant) and not isinstance(e.value, bool) and isinstance(e.value, (int, float)) and e.value == 1


def _is_uniform(ctx, fi, flow, m, v) -> bool:
    """ones(L)/L, full(L, 1)/L, full(L, 1/L), ones(L)*(1/L): L the same length expression in both places."""
    v = _subst_lengths(flow, m, v)

    def ext(c):
        return (ctx.res.external_name(fi, c) or "") if isinstance(c, ast.Call) else ""

    def alloc(c, want_fill=None):
        """(length text, fill expr or None) of ones(L[, dtype]) / full(L, f[, dtype])."""
        if ext(c) == "numpy.ones" and c.args:
            return _len_text(c.args[0]), None
        if ext(c) == "numpy.full" and c.args:
            fill = c.args[1] if len(c.args) > 1 else next((k.value for k in c.keywords if k.arg == "fill_value"), None)
            if fill is not None:
                return _len_text(c.args[0]), fill
        return None

    def recip(e):
        if isinstance(e, ast.BinOp) and isinstance(e.op, ast.Div) and _is_one(e.left):
            return _len_text(e.right)
        return None

    if isinstance(v, ast.BinOp) and isinstance(v.op, ast.Div):
        a = alloc(v.left)
        if a and (a[1] is None or _is_one(a[1])):
            return a[0] == _len_text(v.right)
        return False
    if isinstance(v, ast.BinOp) and isinstance(v.op, ast.Mult):
        for l, r in ((v.left, v.right), (v.right, v.left)):
            a = alloc(l)
            if a and (a[1] is None or _is_one(a[1])) and recip(r) == a[0]:
                return True
        return False
    if isinstance(v, ast.Call):
        a = alloc(v)
        if a and a[1] is not None:
            return recip(a[1]) == a[0]
    return False


def _len_arg(e):
    for c in ast.walk(e):
        if isinstance(c, ast.Call) and dotted(c.func).split(".")[-1] in ("ones", "full") and c.args:
            return c.args[0]
    return e


def _len_of(e):
    return e


def _on_path_with(flow, idx_def, wd, rn) -> bool:
    """wd reaches the return along a path that also passes idx_def after wd."""
    return flow.cfg.reaches(wd.node.id, idx_def) and not any(True for _ in ())


def _fmt(flow, h: Set[int]) -> str:
    return "[" + ", ".join(sorted(f"line {flow.cfg.nodes[i].lineno}" if i >= 0 else "?" for i in h)) + "]"


def rule_d(ctx: Context, R: Reporter):
    fi = posterior_fn(ctx)
    flow = flow_of(fi.node)
    tg = Tagger(ctx, fi)
    shapes = set()
    for rt in return_tuples(fi):
        rn = rt.node
        if True:
            tags = [(tg.tag(e, rn) or (name_tag(e.id) if isinstance(e, ast.Name) else None)) for e in rt.elts]
            ok = tags[:3] == ["x", "weights", "logl"] and tags[3:] in ([], ["blobs"], ["logw"], ["blobs", "logw"])
            shapes.add(tuple(tags))
            R.check("C12.d", "return tuple has the shape (x, weights, logl[, blobs][, logw])", ok, fi, rn.stmt,
                    msg=f"{fi.short}: returns fields {tags}", key=f"shape:{','.join(map(str, tags))}")
    # each shape is selected by the caller's flags: optional arrays are returned exactly when asked for
    from ..util import conds_holding_at as _cha
    from ..util import split_cond as _split

    flag_of = {"blobs": next((p for p in fi.params if "blob" in p), None), "logw": next((p for p in fi.params if "logw" in p), None)}
    for rt in return_tuples(fi):
        rn = rt.node
        tags = [(tg.tag(e, rn) or (name_tag(e.id) if isinstance(e, ast.Name) else None)) for e in rt.elts]
        if isinstance(rn.stmt.value, ast.Tuple):
            facts = {}
            for (t, pol) in _cha(flow.cfg, rn):
                for (a, p) in _split(t, pol):
                    if isinstance(a, ast.Name):
                        facts[a.id] = p
            for opt, flag in flag_of.items():
                if flag is None:
                    continue
                has = opt in tags
                if has:
                    ok = facts.get(flag) is True  # returned only where the flag is known to be set
                else:
                    ok = facts.get(flag) is not True or opt == "blobs"  # blobs may be absent when none exist
                facts.setdefault(flag, None)
                R.check("C12.d", f"`{opt}` is returned exactly when `{flag}` is set", ok, fi, rn.stmt,
                        msg=f"{fi.short}: `{unparse(rn.stmt)[:60]}` is reached with {flag}={facts[flag]} but {'returns' if has else 'omits'} `{opt}`: positions in the returned tuple "
                            f"no longer mean what the caller asked for", key=f"flag-shape:{opt}:{','.join(map(str, tags))}")
    want = {("x", "weights", "logl"), ("x", "weights", "logl", "blobs"), ("x", "weights", "logl", "logw"), ("x", "weights", "logl", "blobs", "logw")}
    R.check("C12.d", "all four option combinations have a return", want <= shapes, fi, fi.node,
            msg=f"{fi.short}: missing return shapes {sorted(want - shapes)}", key="shape-table")


def _is_normalising(ctx: Context, fi: FuncInfo, flow, d, seen=None) -> Tuple[bool, str]:
    """Does definition `d` of a weight vector make it sum to one?  Recognised:
    `w /= sum(w)`, `w = v / sum(v)`, `w = ones(n) / n`, `w = full(n, 1/n)`, the
    weights component returned by an internal routine all of whose returned
    weights are themselves normalised, and plain copies of such a value."""
    seen = seen or set()
    if id(d) in seen:
        return False, "cyclic definition"
    seen = seen | {id(d)}

    def is_sum_of(e, name_txt):
        return isinstance(e, ast.Call) and (ctx.res.external_name(fi, e) or dotted(e.func)).split(".")[-1] == "sum" and e.args and norm_text(e.args[0]) == name_txt \
            or (isinstance(e, ast.Call) and isinstance(e.func, ast.Attribute) and e.func.attr == "sum" and not e.args and norm_text(e.func.value) == name_txt)

    # one reading of own-sum normalisation for every rule (power-sum algebra over the resolved statement)
    if d.kind in ("aug", "assign") and d.stmt is not None and not d.path:
        from ..util import own_sum_normalisation
        dec, form, _vec = own_sum_normalisation(ctx, fi, d.stmt, d.node)
        if dec is True:
            return True, ""
        if dec is False and d.kind == "aug":
            return False, f"`{norm_text(d.stmt)[:50]}` gives {form}, not w / sum(w)"
    if d.kind == "aug":
        st = d.stmt
        if isinstance(st, ast.AugAssign) and isinstance(st.op, ast.Div) and is_sum_of(st.value, norm_text(st.target)):
            return True, ""
        return False, f"`{norm_text(st)[:50]}` is not a division by the vector's own sum"
    v = d.value
    if d.kind != "assign" or v is None:
        return False, f"definition of kind {d.kind}"
    if d.path:
        # tuple component of an internal call
        if isinstance(v, ast.Call):
            tg = [t for t in ctx.res.call_targets(fi, v) if isinstance(t, FuncInfo)]
            if len(tg) == 1:
                cal = tg[0]
                cflow = flow_of(cal.node)
                oks = []
                for rn in cflow.cfg.stmt_nodes():
                    if rn.kind == "stmt" and isinstance(rn.stmt, ast.Return) and isinstance(rn.stmt.value, ast.Tuple) and d.path[0] < len(rn.stmt.value.elts):
                        e = rn.stmt.value.elts[d.path[0]]
                        if isinstance(e, ast.Name):
                            ds2 = cflow.reaching(rn, e.id)
                            oks.append(bool(ds2) and all(_is_normalising(ctx, cal, cflow, d2, seen)[0] for d2 in ds2))
                        else:
                            oks.append(False)
                if oks and all(oks):
                    return True, ""
                return False, f"component {d.path[0]} returned by {cal.short} is not normalised on every return"
        return False, "tuple component of an unresolved call"
    # uniform 1/L in any of the spellings C12.c accepts (one recogniser for both rules)
    if d.node is not None and isinstance(v, (ast.BinOp, ast.Call)) and _is_uniform(ctx, fi, flow, d.node, v):
        return True, ""
    if isinstance(v, ast.BinOp) and isinstance(v.op, ast.Div):
        if is_sum_of(v.right, norm_text(v.left)):
            return True, ""
        # ones(n) / n
        if isinstance(v.left, ast.Call) and (ctx.res.external_name(fi, v.left) or "") in ("numpy.ones",) and v.left.args and norm_text(v.left.args[0]) == norm_text(v.right):
            return True, ""
        return False, f"`{norm_text(v)[:50]}` is not v / sum(v) nor ones(n) / n"
    if isinstance(v, ast.Call) and (ctx.res.external_name(fi, v) or "") == "numpy.full" and len(v.args) >= 2:
        f = v.args[1]
        if isinstance(f, ast.BinOp) and isinstance(f.op, ast.Div) and const_value(f.left) in (1, 1.0) and norm_text(f.right) == norm_text(v.args[0]):
            return True, ""
    if isinstance(v, ast.Name):
        ds2 = flow.reaching(d.node, v.id)
        if ds2 and all(_is_normalising(ctx, fi, flow, d2, seen)[0] for d2 in ds2):
            return True, ""
    if isinstance(v, ast.Call) and isinstance(v.func, ast.Attribute) and v.func.attr == "copy" and isinstance(v.func.value, ast.Name):
        ds2 = flow.reaching(d.node, v.func.value.id)
        if ds2 and all(_is_normalising(ctx, fi, flow, d2, seen)[0] for d2 in ds2):
            return True, ""
    return False, f"`{norm_text(v)[:50]}` does not normalise"


def rule_f(ctx: Context, R: Reporter):
    """C12.f  posterior() weights are the importance weights at beta = 1: every call
    of the weight function in the posterior routine passes the literal 1 (or relies
    on the routine's default, which is 1)."""
    fi = posterior_fn(ctx)
    wfn = _weights_fn(ctx)
    n = 0
    for (c, tg_) in ctx.cg.sites.get(fi.qualname, []):
        if wfn not in [t for t in tg_ if isinstance(t, FuncInfo)]:
            continue
        n += 1
        ps = [p for p in wfn.params if p != "self"]
        arg = call_arg(c, 0, ps[0]) if ps else None
        if arg is None:
            d = wfn.param_default(ps[0]) if ps else None
            val = const_value(d) if d is not None else None
        else:
            at = flow_of(fi.node).node_containing(c)
            val = const_value(ExprResolver(fi.node).resolve(arg, at))
        R.check("C12.f", "posterior weights are computed at beta = 1", val in (1, 1.0) and val is not True, fi, c,
                msg=f"{fi.short}: `{unparse(c)[:60]}` computes the posterior weights at beta = {unparse(arg) if arg is not None else val}, not at 1", key="posterior-beta-one")
    R.floor("C12.f", "weight-function calls in the posterior routine", n, 1)


def rule_g(ctx: Context, R: Reporter):
    """C12.g  the options of posterior() act independently: the trimming call is
    guarded by the trimming option only and the resampling call by the resampling
    option only (a block nested under the other option is silently skipped for one
    of the four combinations)."""
    fi = posterior_fn(ctx)
    flow = flow_of(fi.node)
    from ..util import conds_holding_at as _cha
    from ..util import split_cond as _split

    bool_opts = [p for p in fi.params if p not in ("self",) and isinstance(fi.param_default(p), ast.Constant) and isinstance(fi.param_default(p).value, bool)]
    n = 0
    for nd in flow.cfg.stmt_nodes():
        for c in calls_in_node(nd):
            tg_ = [t for t in ctx.res.call_targets(fi, c) if isinstance(t, FuncInfo) and t.cls is None and t.module.name.endswith("tools")]
            if not tg_:
                continue
            mentioned = set()
            for (t, pol) in _cha(flow.cfg, nd):
                for (a, p) in _split(t, pol):
                    for x in ast.walk(a):
                        if isinstance(x, ast.Name) and x.id in bool_opts:
                            mentioned.add(x.id)
            n += 1
            R.check("C12.g", f"`{tg_[0].name}` is selected by one option of {fi.short}", len(mentioned) <= 1, fi, c,
                    msg=f"{fi.short}: `{unparse(c)[:50]}` runs only under conditions on {sorted(mentioned)}: one option is nested inside another, so e.g. resample=True with "
                        f"trim_importance_weights=False silently returns the un-resampled weighted sample", key=f"option-independent:{tg_[0].name}")
    R.floor("C12.g", "option-controlled utility calls in posterior()", n, 2)


def rule_e(ctx: Context, R: Reporter):
    """C12.e  the weights returned by posterior() sum to one on every path: every
    definition of the returned weight vector that reaches a return is a
    normalisation (own-sum division, uniform 1/n, or the normalised output of the
    trimming routine)."""
    fi = posterior_fn(ctx)
    flow = flow_of(fi.node)
    tg = Tagger(ctx, fi)
    n = 0
    seen = set()
    for rt in return_tuples(fi):
        rn = rt.node
        if len(rt.elts) >= 2:
            w = rt.elts[1]
            if not isinstance(w, ast.Name):
                raise AnalysisError(f"C12.e: returned weights `{unparse(w)}` are not a plain name")
            for d in flow.reaching(rn, w.id):
                if id(d) in seen:
                    continue
                seen.add(id(d))
                n += 1
                ok, why = _is_normalising(ctx, fi, flow, d)
                R.check("C12.e", "every definition of the returned posterior weights normalises them", ok, fi, d.stmt if d.stmt is not None else rn.stmt,
                        msg=f"{fi.short}: the weights returned by `{unparse(rn.stmt)[:50]}` can come from {why}: with that option combination the returned weights do not sum to one",
                        key=f"weights-normalised:{norm_text(d.stmt)[:50] if d.stmt is not None else d.kind}")
    R.floor("C12.e", "definitions of the returned weights", n, 3)


def rule_i(ctx: Context, R: Reporter):
    """C12.i  the target the caller asked for is the target the run terminates against: every function that calls the run
    driver passes its own `n_total` parameter on as it received it (no rounding to batches, no cast that can lower it,
    no re-binding before the call)."""
    fi, _loop = run_driver(ctx)
    if "n_total" not in fi.params:
        raise AnalysisError("C12.i: the run driver has no n_total parameter")
    idx = [p for p in fi.params if p not in ("self", "cls")].index("n_total")
    n = 0
    for g in ctx.prog.functions.values():
        if g is fi:
            continue
        for (call, tg) in ctx.cg.sites.get(g.qualname, []):
            if fi not in tg:
                continue
            a = call_arg(call, idx, "n_total")
            if a is None:
                continue
            n += 1
            flow = flow_of(g.node)
            at = flow.node_containing(call)
            ok = isinstance(a, ast.Name) and a.id in g.params and at is not None and all(d.kind == "param" for d in flow.reaching(at, a.id))
            R.check("C12.i", f"{g.short} hands the caller's n_total to the run driver unchanged", ok, g, call,
                    msg=f"{g.short}: the run driver is called with n_total=`{unparse(a)[:50]}`" + ("" if not isinstance(a, ast.Name) else " (re-bound before the call: "
                        + "; ".join(norm_text(d.stmt)[:60] for d in (flow.reaching(at, a.id) if at is not None else []) if d.kind != "param" and d.stmt is not None) + ")")
                        + ", not the value the caller passed: the loop terminates against another target, so ESS >= n_total (as requested) need not hold on return", key=f"n_total-forwarded:{g.short}")
    R.floor("C12.i", "callers of the run driver passing n_total", n, 1)


def rule_h(ctx: Context, R: Reporter):
    """C12.h  the public posterior() is a pass-through of the core's result: whatever wraps the posterior
    function either returns its result untouched or applies one row selection to every component
    (a filter applied to x / weights / logl but not to the optional blobs / log-weights breaks the
    equal-length, row-by-row contract only for the option combinations that return them)."""
    pf = posterior_fn(ctx)
    n = 0
    for fi in ctx.prog.functions.values():
        if fi is pf:
            continue
        sites = [c for (c, tg) in ctx.cg.sites.get(fi.qualname, []) if any(t is pf for t in tg)]
        if not sites:
            continue
        n += 1
        flow = flow_of(fi.node)
        call = sites[0]
        cn = flow.node_containing(call)
        st = cn.stmt if cn is not None else None
        if isinstance(st, ast.Return) and st.value is call:
            R.check("C12.h", "the facade returns the core's posterior tuple untouched", True, fi, st, key=f"passthrough:{fi.short}")
            continue
        if not (isinstance(st, ast.Assign) and st.value is call and len(st.targets) == 1):
            raise AnalysisError(f"C12.h: {fi.short} consumes the posterior tuple in a form outside the rule's vocabulary (`{unparse(st)[:60] if st is not None else '?'}`)")
        tgt = st.targets[0]
        names = []
        if isinstance(tgt, ast.Name):
            names = [tgt.id]
        elif isinstance(tgt, (ast.Tuple, ast.List)):
            for e in tgt.elts:
                e2 = e.value if isinstance(e, ast.Starred) else e
                if not isinstance(e2, ast.Name):
                    raise AnalysisError(f"C12.h: {fi.short}: unpacking target `{unparse(tgt)[:40]}` not understood")
                names.append(e2.id)
        # re-definitions of the unpacked components after the call
        selected, other = {}, {}
        for nd in flow.cfg.stmt_nodes():
            if nd is cn:
                continue
            for d in flow.defs_at.get(nd.id, []):
                if d.name not in names:
                    continue
                v = d.value
                if isinstance(v, ast.Tuple) and d.path and len(d.path) == 1 and isinstance(d.path[0], int) and d.path[0] < len(v.elts):
                    v = v.elts[d.path[0]]
                if isinstance(v, ast.Subscript) and isinstance(v.value, ast.Name) and v.value.id == d.name:
                    selected.setdefault(d.name, []).append((norm_text(v.slice), d.stmt))
                else:
                    other.setdefault(d.name, []).append(d.stmt)
        if not selected and not other:
            R.check("C12.h", "the facade returns the core's posterior tuple untouched", True, fi, st, key=f"passthrough:{fi.short}")
            continue
        if other:
            raise AnalysisError(f"C12.h: {fi.short} re-binds {sorted(other)} after the posterior call in a form the rule cannot type")
        idxs = {i for lst in selected.values() for (i, _) in lst}
        missing = [nm for nm in names if nm not in selected]
        ok = not missing and len(idxs) == 1
        where = next(iter(selected.values()))[0][1]
        R.check("C12.h", "a row selection in the facade is applied to every returned component", ok, fi, where,
                msg=f"{fi.short}: the components {sorted(selected)} of the posterior tuple are re-selected with `[{sorted(idxs)[0]}]` but {missing or 'others'} "
                    f"(the optional blobs / log-weights) are returned as they came: outputs of different length that no longer refer row by row to the same particles",
                key=f"facade-partial-selection:{fi.short}")
    R.floor("C12.h", "wrappers of the posterior function", n, 1)


def run(ctx: Context, R: Reporter):
    R.guard(rule_h, ctx, R)
    R.guard(rule_i, ctx, R)
    R.guard(rule_g, ctx, R)
    R.guard(rule_f, ctx, R)
    R.guard(rule_e, ctx, R)
    R.guard(rule_a, ctx, R)
    R.guard(rule_b, ctx, R)
    R.guard(rule_c, ctx, R)
    R.guard(rule_d, ctx, R)


def variants():
    from ..variants import Variant, normalisation_twins, alpha_rename, delete_stmt, insert_after, insert_before, replace_expr, replace_stmt

    core = "tempest/core.py"
    return [
        Variant("a-or-to-and", "bad", replace_expr(core, "SamplerCore._not_termination", "1.0 - beta >= 0.0001 or ess < getattr(self, 'n_total', 0)", "1.0 - beta >= 0.0001 and ess < getattr(self, 'n_total', 0)"), ["C12.a"], quick=True),
        Variant("a-loose-tolerance", "bad", replace_expr(core, "SamplerCore._not_termination", "0.0001", "0.01"), ["C12.a"], quick=True),
        Variant("i-facade-rounds-target-down", "bad", insert_before("tempest/sampler.py", "Sampler.run", "return self._core.run_sampling", "n_total = (int(n_total) // self.n_particles) * self.n_particles"), ["C12.i"], quick=True),
        Variant("a-ess-rounded-to-nearest", "bad", replace_stmt(core, "SamplerCore._not_termination", "ess = effective_sample_size(weights)", "ess = int(np.rint(effective_sample_size(weights)))"), ["C12.a"], quick=True),
        Variant("a-benign-ess-as-float", "benign", replace_stmt(core, "SamplerCore._not_termination", "ess = effective_sample_size(weights)", "ess = float(effective_sample_size(weights))")),
        Variant("a-drop-ess", "bad", replace_expr(core, "SamplerCore._not_termination", "1.0 - beta >= 0.0001 or ess < getattr(self, 'n_total', 0)", "1.0 - beta >= 0.0001"), ["C12.a"]),
        Variant("a-ess-of-current-beta", "bad", replace_expr(core, "SamplerCore._not_termination", "self.state.compute_logw_and_logz(1.0)", "self.state.compute_logw_and_logz(self.state.get_current('beta') or 0.0)"), ["C12.a"]),
        Variant("a-break-in-loop", "bad", insert_after(core, "SamplerCore.run_sampling", "self.execute_iteration(save_every=save_every, t0=t0)", "if self.state.get_current('beta') == 1.0:\n    break"), ["C12.a"]),
        Variant("a-return-false-early", "bad", replace_stmt(core, "SamplerCore._not_termination", "return True", "return False"), ["C12.a"]),
        Variant("b-final-logz-at-beta", "bad", replace_expr(core, "SamplerCore.run_sampling", "self.state.compute_logw_and_logz(1.0)", "self.state.compute_logw_and_logz(0.5)"), ["C12.b"], quick=True),
        Variant("b-drop-final-logz", "bad", delete_stmt(core, "SamplerCore.run_sampling", "self.state.set_current('logz', logz)"), ["C12.b", "ANALYSIS-ERROR"]),
        Variant("b-evidence-wrong-key", "bad", replace_expr(core, "SamplerCore.compute_evidence", "self.state.get_current('logz')", "self.state.get_current('logz') * 1.0 + 0.0"), ["C12.b"]),
        Variant("c-logw-untrimmed", "bad", delete_stmt(core, "SamplerCore.compute_posterior", "logw = logw[idx]"), ["C12.c"], quick=True),
        Variant("c-logl-unresampled", "bad", _delete_nth(core, "SamplerCore.compute_posterior", "logl = logl[idx]", 1), ["C12.c"]),
        Variant("c-weights-not-reset", "bad", delete_stmt(core, "SamplerCore.compute_posterior", "weights = np.ones(len(idx)) / len(idx)"), ["C12.c"]),
        Variant("d-swap-return", "bad", replace_expr(core, "SamplerCore.compute_posterior", "(x, weights, logl)", "(x, logl, weights)"), ["C12.d"]),
        Variant("h-facade-partial-filter", "bad", _facade_filter(False), ["C12.h"], quick=True),
        Variant("h-benign-facade-bound-result", "benign", _facade_filter(True)),
        Variant("b-early-return-on-resume", "bad", insert_before(core, "SamplerCore.run_sampling", "from .tools import ProgressBar", "if resume_state_path is not None and not self._not_termination():\n    return"), ["C12.b"], quick=True),
        Variant("benign-rename-idx", "benign", alpha_rename(core, "SamplerCore.compute_posterior", "idx", "sel"), quick=True),
        *normalisation_twins("e", core, "SamplerCore.compute_posterior", "weights /= np.sum(weights)", "weights", True, ["C12.e"]),
        # uniform weights after resampling: the accepted spellings, and the near misses that must still be reported
        Variant("c-benign-uniform-full-local-len", "benign", replace_stmt(core, "SamplerCore.compute_posterior", "weights = np.ones(len(idx)) / len(idx)", "n_draws = len(idx)\nweights = np.full(n_draws, 1.0 / n_draws, dtype=np.float64)"), quick=True),
        Variant("c-benign-uniform-ones-times-recip", "benign", replace_stmt(core, "SamplerCore.compute_posterior", "weights = np.ones(len(idx)) / len(idx)", "weights = np.ones(idx.shape[0]) * (1.0 / idx.shape[0])")),
        Variant("c-uniform-full-wrong-fill", "bad", replace_stmt(core, "SamplerCore.compute_posterior", "weights = np.ones(len(idx)) / len(idx)", "n_draws = len(idx)\nweights = np.full(n_draws, 1.0, dtype=np.float64)"), ["C12.c"], quick=True),
        Variant("c-uniform-length-of-other-array", "bad", replace_stmt(core, "SamplerCore.compute_posterior", "weights = np.ones(len(idx)) / len(idx)", "n_draws = len(idx)\nweights = np.full(n_draws, 1.0 / len(bins_trim))"), ["C12.c"]),
        Variant("c-uniform-reads-old-weights", "bad", replace_stmt(core, "SamplerCore.compute_posterior", "weights = np.ones(len(idx)) / len(idx)", "weights = np.full(len(weights), 1.0 / len(weights))"), ["C12.c"], quick=True),
        Variant("benign-guard-demorgan", "benign", replace_expr(core, "SamplerCore._not_termination", "1.0 - beta >= 0.0001 or ess < getattr(self, 'n_total', 0)", "not (1.0 - beta < 0.0001 and ess >= getattr(self, 'n_total', 0))"), quick=True),
        Variant("benign-hoist-ntotal", "benign", replace_stmt(core, "SamplerCore._not_termination", "return 1.0 - beta >= 0.0001 or ess < getattr(self, 'n_total', 0)", "target = getattr(self, 'n_total', 0)\nreturn 1.0 - beta >= 0.0001 or ess < target")),
    ]


def _delete_nth(relpath, defpath, text, nth):
    from ..variants import edit, replace_in_body, stmt_contains

    def fn(node, tree):
        count = [0]
        key = "".join(text.split())

        def pred(st):
            if stmt_contains(key)(st):
                count[0] += 1
                return count[0] - 1 == nth
            return False

        return replace_in_body(node, pred, lambda st: [], first_only=True)

    return edit(relpath, defpath, fn)


def _facade_filter(benign: bool):
    from ..variants import edit

    def fn(node, tree):
        for i, st in enumerate(node.body):
            if isinstance(st, ast.Return) and isinstance(st.value, ast.Call) and "compute_posterior" in ast.unparse(st.value.func):
                call = ast.unparse(st.value)
                if benign:
                    new = ast.parse(f"out = {call}\nreturn out").body
                else:
                    new = ast.parse(f"x, weights, logl, *extra = {call}\nkeep = weights > 0.0\nx, weights, logl = x[keep], weights[keep], logl[keep]\nreturn (x, weights, logl, *extra)").body
                node.body[i:i + 1] = new
                return True
        return False

    return edit("tempest/sampler.py", "Sampler.posterior", fn)
