"""C10  Rescaling the likelihood shifts log-evidence only.

Typing (A7) of every pipeline function that touches absolute log-likelihood
values, with an assume/guarantee contract at the state-key boundary:

  sources     likelihood-wrapper results, keys `logl` (current and history),
              kernel attributes holding log-likelihoods: Shift(1);
              key `logz`: Shift(b) for the beta in force; results of the weight
              function: (Inv & Norm, Shift(arg))
  C10.a  sinks: every branch condition and loop guard is shift-free (Inv)
  C10.b  sinks: every value written to a state key other than logl / logz /
         blobs is shift-free; the weights returned by the reweighting step and
         the acceptance probability / accept mask are shift-free
  C10.c  guarantee: every write to key `logz` is the evidence component of the
         weight function (which shifts by its beta argument) or a shift-free
         value written while beta is 0
  C10.d  no conflict (incompatible shift combination) anywhere in scope
  C10.e  log-domain discipline: no exponential of a value that still shifts with
         the offset (exact-arithmetic invariance that over/underflows in floats)
"""
from __future__ import annotations

import ast
from typing import Dict, List, Optional, Set, Tuple

from ..dataflow import Resolver as ExprResolver
from ..dataflow import flow_of
from ..engine import Context, Reporter
from ..model import AnalysisError, ClassInfo, FuncInfo, dotted, norm_text, walk_no_nested
from ..records import Tagger, name_tag
from ..shift import ST, ShiftInterp, inv, p_atom, p_const, shift
from ..util import call_arg, calls_in, conds_holding_at, const_value, unparse
from .c12 import _weights_fn

PROP = "C10"
EXPLANATION = (
    "Whole-pipeline shift typing: log-likelihood values enter as Shift(1) (likelihood wrapper results, the `logl` key, "
    "kernel attributes), recorded evidences as Shift(beta), and the weight function is summarised by its decided type "
    "(C04: normalised log-weights Inv, evidence Shift(beta_final)). The checker then shows that every branch condition, "
    "loop guard, value written to any other state key, weight vector handed to training/resampling, acceptance "
    "probability and termination test is shift-free, i.e. absolute log-likelihood only enters through differences or "
    "through beta_t*logL - logZ_t, and that every value stored under `logz` is the evidence component of the weight "
    "function (or a shift-free constant while beta = 0). This is a sufficient condition for the property in exact "
    "arithmetic on the typed paths; floating-point rounding ('up to rounding' in the statement) and user code are not decided."
)
ASSUMPTIONS = ["the weight function has the type decided under C04", "the progress-bar display is a non-semantic sink", "user callables do not read library state"]

SCOPE_EXCLUDE_MODULES = ("tempest.cluster", "tempest.student", "tempest.config", "tempest.modes")


def scope(ctx: Context) -> List[FuncInfo]:
    out = []
    for fi in ctx.prog.functions.values():
        if fi.module.name in SCOPE_EXCLUDE_MODULES or fi.parent is not None:
            continue
        if fi.cls is not None and fi.cls.name in ("ProgressBar", "FunctionWrapper", "Sampler"):
            continue
        if fi.name.startswith("__") and fi.name != "__init__":
            continue
        out.append(fi)
    return out


class Collector:
    def __init__(self):
        self.writes: List[Tuple[FuncInfo, ast.Call, str, ST]] = []


def make_interp(ctx: Context, fi: FuncInfo, wfn: FuncInfo, coll: Collector, depth: int = 0) -> ShiftInterp:
    tagger = Tagger(ctx, fi)

    def source(e: ast.expr, env) -> Optional[ST]:
        if isinstance(e, ast.Call) and isinstance(e.func, ast.Attribute):
            m = e.func.attr
            if m in ("get_current", "get_history", "get_last_history") and ctx.state.is_state_receiver(fi, e.func.value):
                k = call_arg(e, 0, "key")
                if isinstance(k, ast.Constant):
                    if k.value == "logl":
                        return shift(p_const(1))
                    if k.value == "logz":
                        return shift(p_atom("b_rec"))
                    if k.value == "beta":
                        return inv(cval=p_atom("bc"))
                    return inv()
                if k is None:
                    return ST("unknown", why="whole current state")
            if m in ("set_current", "update_current") and ctx.state.is_state_receiver(fi, e.func.value):
                si = make_interp(ctx, fi, wfn, Collector(), depth + 1)
                si_env = env
                if m == "set_current":
                    k = call_arg(e, 0, "key")
                    v = call_arg(e, 1, "value")
                    if isinstance(k, ast.Constant) and v is not None:
                        coll.writes.append((fi, e, k.value, _eval_with(ctx, fi, wfn, v, env)))
                else:
                    d = call_arg(e, 0, "data_dict")
                    if isinstance(d, ast.Dict):
                        for kk, vv in zip(d.keys, d.values):
                            if isinstance(kk, ast.Constant):
                                coll.writes.append((fi, e, kk.value, _eval_with(ctx, fi, wfn, vv, env)))
                return inv()
            if tagger.role_of_call(e) == "likelihood":
                return ST("tuple", items=[shift(p_const(1)), inv()])
            if tagger.role_of_call(e) == "prior_transform":
                return inv()
        if isinstance(e, ast.Attribute) and isinstance(e.value, ast.Name) and e.value.id == "self":
            if name_tag(e.attr) == "logl":
                return shift(p_const(1))
            if e.attr == "beta":
                return inv(cval=p_atom("bc"))
        if isinstance(e, ast.Subscript) and isinstance(e.value, ast.Name) and e.value.id == "current" and isinstance(e.slice, ast.Constant):
            # dictionary returned by get_current(): display only
            return shift(p_const(1)) if e.slice.value == "logl" else (shift(p_atom("b_rec")) if e.slice.value == "logz" else inv())
        return None

    def internal(call: ast.Call, args, kws):
        tg = [t for t in ctx.res.call_targets(fi, call) if isinstance(t, FuncInfo)]
        if wfn in tg:
            b = args[0] if args else kws.get("beta_final")
            k = b.cval if (b is not None and b.kind == "shift" and b.cval is not None) else p_atom("b_arg")
            if b is None:
                k = p_const(1)
            ev = shift(k, ())
            ev.why = "evidence"
            # normalize=False: the (decided, C04.b) type of unnormalised log-weights is Shift(beta_final)
            normp = next((p for p in wfn.params if "normal" in p), None)
            narg = call_arg(call, 1, normp) if normp else None
            if narg is None:
                lw = inv(("S",), norm=True)
            elif const_value(narg) is True:
                lw = inv(("S",), norm=True)
            elif const_value(narg) is False:
                lw = shift(k, ("S",))
            else:
                lw = ST("unknown", why=f"offset-dependent: normalisation flag `{unparse(narg)}` of the weight function is not a constant")
            return ST("tuple", items=[lw, ev])
        cands = [t for t in tg if not t.is_abstract and t.module.name not in SCOPE_EXCLUDE_MODULES and not (t.cls is not None and t.cls.name in ("ProgressBar",))]
        if cands and len(cands) == len([t for t in tg if not t.is_abstract]):
            outl = []
            for t in cands:
                if t.cls is not None and t.cls is ctx.state.state_cls:
                    return None  # accessors handled by `source`
                sub = make_interp(ctx, t, wfn, coll, depth + 1)
                outl.append((t.node, sub.ext_name, t.cls is not None and not t.is_staticmethod, sub.source, _param_consts(t)))
            return outl
        return None

    si = ShiftInterp(lambda c: ctx.res.external_name(fi, c), source=source, internal=internal, depth=depth, const_params=_param_consts(fi))
    return si


def _param_consts(fi: FuncInfo) -> Dict[str, object]:
    out: Dict[str, object] = {}
    for p in fi.params:
        t = name_tag(p)
        if t == "logl" or p in ("logl", "logl_prime"):
            out[p] = shift(p_const(1))
        elif p in ("beta", "beta_final", "beta_current", "beta_min", "beta_max", "beta_prev"):
            out[p] = inv(cval=p_atom("bp_" + p))
        elif p == "logz":
            out[p] = shift(p_atom("b_rec"))
    return out


def _eval_with(ctx, fi, wfn, v: ast.expr, env) -> ST:
    si = make_interp(ctx, fi, wfn, Collector(), 1)
    return si.eval(v, env)


def rule(ctx: Context, R: Reporter):
    wfn = _weights_fn(ctx)
    fns = [f for f in scope(ctx) if f is not wfn]
    coll = Collector()
    n_cond = 0
    n_conf = 0
    typed_fns = 0
    seen_conf = set()
    seen_haz = set()
    for fi in fns:
        si = make_interp(ctx, fi, wfn, coll)
        try:
            rets, env = si.run(fi.node)
        except RecursionError:
            raise AnalysisError(f"C10: recursion while typing {fi.short}")
        typed_fns += 1
        for (test, t) in si.cond_types:
            n_cond += 1
            if t.kind == "shift" and not t.k:
                R.check("C10.a", f"branch condition in {fi.short} is shift-free", True, fi, test, key=f"cond:{fi.short}:{norm_text(test)[:50]}")
            elif t.kind in ("shift", "scale", "conflict"):
                R.check("C10.a", f"branch condition in {fi.short} is shift-free", False, fi, test,
                        msg=f"{fi.short}: condition `{unparse(test)[:60]}` has type {t!r} under logL -> logL + c: the control flow (schedule, acceptance, termination) changes when the "
                            f"likelihood is rescaled", key=f"cond:{fi.short}:{norm_text(test)[:50]}")
            elif t.kind == "unknown" and "offset-dependent" in t.why:
                raise AnalysisError(f"C10.a: condition `{unparse(test)[:50]}` in {fi.short} not typable: {t.why}")
        for c in si.conflicts:
            k = (fi.short, norm_text(c.node)[:80] if c.node is not None else c.why)
            if k in seen_conf:
                continue
            seen_conf.add(k)
            n_conf += 1
            R.check("C10.d", f"no incompatible shift combination in {fi.short}", False, fi, c.node if c.node is not None else fi.node,
                    msg=f"{fi.short}: {c.why} at `{unparse(c.node)[:70] if c.node is not None else ''}`: an absolute log-likelihood leaks into a quantity that should only see differences",
                    key=f"conflict:{k[1]}")
        # C10.e: log-domain discipline -- an exponential of a value that still shifts with c is invariant only in
        # exact arithmetic; for |c| of a few hundred it over/underflows and the run changes
        for (hz, ht) in si.hazards:
            k = (fi.short, norm_text(hz)[:80])
            if k in seen_haz:
                continue
            seen_haz.add(k)
            R.check("C10.e", f"exponentials in {fi.short} are taken of shift-free values only", False, fi, hz,
                    msg=f"{fi.short}: `{unparse(hz)[:70]}` exponentiates a value of type {ht!r}: the result scales by exp(k*c) and under/overflows for a large likelihood offset, so the "
                        f"run is not unchanged \"up to rounding\" (subtract the maximum or use differences first)", key=f"exp-hazard:{k[1]}")
        # returns of the steps' public `run` methods and of the weight/ESS helpers must be shift-free (except evidence-like)
        # (the weight / ESS helpers are the module-level functions of tools.py in the reference tree; a helper that is new there
        # has no such contract -- e.g. a log-density moved over from the weight function legitimately shifts)
        from ..normalize import baseline_table as _bt

        if fi.name in ("run", "_compute_metric_and_weights", "_finalize_iteration", "_compute_acceptance_factor", "_not_termination") or (
                fi.cls is None and fi.module.name == "tempest.tools" and f"{fi.module.name}:{fi.short}" in _bt()):
            for (r, t) in rets:
                comps = t.items if t.kind == "tuple" else [t]
                for i, c in enumerate(comps):
                    if c.kind in ("shift",) and c.k and not _is_logl_component(ctx, fi, r, i):
                        R.check("C10.b", f"value returned by {fi.short} is shift-free", False, fi, r,
                                msg=f"{fi.short}: returns component {i} of `{unparse(r)[:50]}` with type {c!r}", key=f"ret:{fi.short}:{i}:{norm_text(r.value)[:30] if r.value is not None else ''}")
                    elif c.kind == "unknown" and "offset-dependent" in c.why and not si.conflicts:
                        raise AnalysisError(f"C10.b: {fi.short}: returned component {i} not typable: {c.why}")
                    elif c.kind == "scale":
                        R.check("C10.b", f"value returned by {fi.short} is shift-free", False, fi, r,
                                msg=f"{fi.short}: returns component {i} of `{unparse(r)[:50]}` with type {c!r} (weights must be max-shifted before exponentiation)", key=f"ret:{fi.short}:{i}:{norm_text(r.value)[:30] if r.value is not None else ''}")
    # acceptance step: every index used to move particle rows is shift-free
    from ..records import discover_sites

    n_idx = 0
    for fi in fns:
        sites = [st for st in discover_sites(ctx, fi) if len(st.fields() & {"u", "x", "logl"}) >= 2]
        if not sites:
            continue
        si = make_interp(ctx, fi, wfn, Collector())
        si.run(fi.node)
        last = {}
        for (n, t, stmt) in si.typed:
            last[n] = t
        for st in sites:
            if st.index_name.startswith("<"):
                continue
            t = last.get(st.index_name)
            if t is None:
                continue
            n_idx += 1
            if t.kind == "unknown" and "offset-dependent" in t.why and not si.conflicts:
                raise AnalysisError(f"C10.b: index `{st.index_name}` in {fi.short} not typable: {t.why}")
            bad = (t.kind == "shift" and t.k) or t.kind in ("scale", "conflict")
            R.check("C10.b", f"row-selection index `{st.index_name}` in {fi.short} is shift-free", not bad, fi, st.moves[0].stmt,
                    msg=f"{fi.short}: index `{st.index_name}` has type {t!r}: which particles are accepted/resampled depends on the likelihood offset", key=f"index:{fi.short}:{st.index_name}")
    R.floor("C10.b", "typed row-selection indices", n_idx, 3)
    R.floor("C10.a", "typed branch conditions", n_cond, 30)
    R.analysed["C10:functions_typed"] = typed_fns
    # state writes
    seen = set()
    n_w = 0
    n_z = 0
    for (fi, call, key, t) in coll.writes:
        ident = (fi.short, key, norm_text(call)[:60])
        if ident in seen:
            continue
        seen.add(ident)
        if key in ("logl", "blobs"):
            continue
        if key == "logz":
            n_z += 1
            ok = t.kind == "shift" and t.why == "evidence"
            # a shift-free value is only right while beta == 0 (warm-up / first iteration)
            if t.kind == "shift" and not t.k and t.why != "evidence":
                ok = _beta_zero_context(ctx, fi, call)
            # a parameter named logz of a finalising helper: checked at its call sites
            if t.kind == "shift" and t.k == p_atom("b_rec") and isinstance(call_arg(call, 1, "value") or _dict_value(call, "logz"), ast.Name) and (call_arg(call, 1, "value") or _dict_value(call, "logz")).id in fi.params:
                ok = True
            R.check("C10.c", f"value stored under `logz` in {fi.short} is the evidence component of the weight function (or shift-free at beta = 0)", ok, fi, call,
                    msg=f"{fi.short}: `{unparse(call)[:60]}` stores a value of type {t!r} under `logz`" + (" outside a beta == 0 context" if t.kind == "shift" and not t.k else ""),
                    key=f"logz-write:{fi.short}:{norm_text(call)[:40]}")
            continue
        n_w += 1
        bad = (t.kind == "shift" and t.k) or t.kind in ("scale", "conflict")
        R.check("C10.b", f"value stored under `{key}` in {fi.short} is shift-free", not bad, fi, call,
                msg=f"{fi.short}: `{unparse(call)[:60]}` stores a value of type {t!r} under `{key}`: a quantity other than logl/logz depends on the likelihood offset",
                key=f"write:{fi.short}:{key}:{norm_text(call)[:30]}")
    R.floor("C10.b", "typed state writes", n_w, 10)
    R.floor("C10.c", "typed logz writes", n_z, 3)
    if not seen_haz:
        R.check("C10.e", f"no exponential of a shifted value in {typed_fns} typed functions", True, None, None, key="no-exp-hazard", loc="tempest/")
    if n_conf == 0:
        R.check("C10.d", f"no shift conflict in {typed_fns} typed functions", True, None, None, key="no-conflict", loc="tempest/")


def _dict_value(call: ast.Call, key: str):
    d = call.args[0] if call.args else None
    if isinstance(d, ast.Dict):
        for k, v in zip(d.keys, d.values):
            if isinstance(k, ast.Constant) and k.value == key:
                return v
    return None


def _is_logl_component(ctx, fi, r, i) -> bool:
    """Returned component that *is* a log-likelihood array by contract (kernel result position, posterior logl)."""
    v = r.value
    if isinstance(v, ast.Tuple) and i < len(v.elts):
        e = v.elts[i]
        txt = norm_text(e)
        return name_tag(txt.split(".")[-1]) == "logl" or "logl" in txt
    return False


def _beta_zero_context(ctx, fi, call) -> bool:
    flow = flow_of(fi.node)
    n = flow.node_containing(call)
    if n is None:
        return False
    for (t, pol) in conds_holding_at(flow.cfg, n):
        if pol and isinstance(t, ast.Compare) and len(t.ops) == 1 and isinstance(t.ops[0], ast.Eq) and const_value(t.comparators[0]) in (0, 0.0):
            rx = ExprResolver(fi.node).resolve(t.left, n)
            if any(isinstance(c, ast.Call) and isinstance(c.func, ast.Attribute) and c.func.attr in ("get_current",) and const_value(call_arg(c, 0, "key")) == "beta" for c in ast.walk(rx)):
                return True
            if any(isinstance(c, ast.Call) and isinstance(c.func, ast.Attribute) and c.func.attr == "get_history_length" for c in ast.walk(rx)):
                return True
    # the same call writes beta = 0.0
    for a in ctx.state.in_func(fi, include_nested=False):
        if a.call is call and a.key == "beta" and const_value(a.value) in (0, 0.0):
            return True
    # fresh initialiser: writes beta 0.0 in the same function
    if any(a.mode == "write" and a.key == "beta" and const_value(a.value) in (0, 0.0) for a in ctx.state.in_func(fi, include_nested=False)):
        return True
    return False


def run(ctx: Context, R: Reporter):
    R.guard(rule, ctx, R)


def variants():
    from ..variants import Variant, alpha_rename, chain, insert_after, insert_before, replace_expr, replace_stmt

    mc = "tempest/mcmc.py"
    rw = "tempest/steps/reweight.py"
    mu = "tempest/steps/mutate.py"
    core = "tempest/core.py"
    return [
        Variant("e-unnormalised-exp", "bad", chain(replace_stmt(rw, "Reweighter._compute_metric_and_weights", "logw, _ = self.state.compute_logw_and_logz(beta)", "logw, _ = self.state.compute_logw_and_logz(beta, normalize=False)"), replace_expr(rw, "Reweighter._compute_metric_and_weights", "np.exp(logw - np.max(logw))", "np.exp(logw)")), ["C10.e"], quick=True),
        Variant("e-unnormalised-maxshift-benign", "benign", replace_stmt(rw, "Reweighter._compute_metric_and_weights", "logw, _ = self.state.compute_logw_and_logz(beta)", "logw, _ = self.state.compute_logw_and_logz(beta, normalize=False)")),
        Variant("e-linear-acceptance", "bad", replace_expr(mc, "BaseMCMCRunner.run", "np.exp(self.beta * (logl_prime - self.logl) + alpha)", "np.exp(self.beta * logl_prime) / np.exp(self.beta * self.logl) * np.exp(alpha)"), ["C10.e"]),
        Variant("a-accept-absolute-logl", "bad", replace_expr(mc, "BaseMCMCRunner.run", "self.beta * (logl_prime - self.logl) + alpha", "self.beta * logl_prime - self.logl + alpha"), ["C10.d", "C10.a", "C10.b"], quick=True),
        Variant("a-ess-unshifted-weights", "bad", chain(replace_stmt(rw, "Reweighter._compute_metric_and_weights", "logw, _ = self.state.compute_logw_and_logz(beta)", "logw, lz = self.state.compute_logw_and_logz(beta)"), replace_expr(rw, "Reweighter._compute_metric_and_weights", "np.exp(logw - np.max(logw))", "np.exp(logw + lz)")), ["C10.b", "C10.a", "C10.d"]),
        Variant("a-threshold-on-logl", "bad", insert_before(mu, "Mutator.run", "inf_logl_mask = np.isinf(logl)", "if np.max(logl) < -100.0:\n    logl = logl + 0.0"), ["C10.a"], quick=True),
        Variant("b-logz-into-ess", "bad", replace_stmt(rw, "Reweighter._finalize_iteration", "weights = weights / np.sum(weights)", "weights = weights / np.sum(weights)\ness_est = ess_est + logz"), ["C10.b", "C10.d"], quick=True),
        Variant("c-logz-plus-mean-logl", "bad", replace_stmt(mu, "Mutator.run", "logz = np.log(n_finite / n_total)", "logz = np.log(n_finite / n_total) + np.mean(logl[finite_idx])"), ["C10.c"]),
        Variant("a-termination-on-logz", "bad", replace_expr(core, "SamplerCore._not_termination", "1.0 - beta >= 0.0001 or ess < getattr(self, 'n_total', 0)", "1.0 - beta >= 0.0001 or ess < getattr(self, 'n_total', 0) or self.state.get_current('logz') < -1000000.0"), ["C10.a"]),
        Variant("benign-rename", "benign", alpha_rename(mc, "BaseMCMCRunner.run", "alpha", "acc"), quick=True),
        Variant("benign-diff-hoisted", "benign", replace_stmt(mc, "BaseMCMCRunner.run", "alpha = np.exp(self.beta * (logl_prime - self.logl) + alpha)", "dlogl = logl_prime - self.logl\nalpha = np.exp(self.beta * dlogl + alpha)")),
    ]
