"""C11  Zero-likelihood prior regions are excluded and counted exactly once.

  C11.a  counted once: in the prior-draw branch of the mutation step the value
         written to key `logz` is the batch's own log supported fraction; it is
         not an update of the current `logz` (which the reweighting step has
         already set to the pooled estimate from history)
  C11.b  no -inf stored: every path through the prior-draw branch on which the
         -inf mask is non-empty passes the joint replacement before returning
  (C11.c joint replacement is C07.a's site; -inf never accepted is C03.c)
"""
from __future__ import annotations

import ast
from typing import List, Optional, Tuple

from ..cfg import cfg_of
from ..dataflow import Resolver as ExprResolver
from ..dataflow import expr_leaves, flow_of
from ..engine import Context, Reporter
from ..model import AnalysisError, FuncInfo, dotted, norm_text, walk_no_nested
from ..records import discover_sites
from ..util import call_arg, calls_in_node, conds_holding_at, unparse

PROP = "C11"
EXPLANATION = (
    "Decides two structural clauses in the prior-sampling branch of the mutation step: (a) the value stored under "
    "`logz` there depends on the batch's finite/-inf split and does not read the current `logz` (an additive update "
    "would count the supported fraction once per warm-up iteration, on top of the pooled estimate the reweighting "
    "step already recorded); (b) every CFG path on which the -inf mask is non-empty passes the joint replacement "
    "of -inf rows before the function returns. Convergence of the final evidence to the integral is not decided."
)
ASSUMPTIONS = ["np.isinf/np.isfinite identify zero-likelihood draws", "the reweighting step sets logz from history before the mutation step runs (C05.e pipeline order)"]


def prior_draw_functions(ctx: Context) -> List[FuncInfo]:
    """Functions that store under key 'u' an array drawn from the global uniform generator."""
    out = []
    for fi in ctx.prog.functions.values():
        flow = flow_of(fi.node)
        for a in ctx.state.in_func(fi, include_nested=False):
            if a.mode == "write" and a.key == "u" and isinstance(a.value, ast.Name):
                wn = flow.node_containing(a.call)
                for d in flow.reaching(wn, a.value.id):
                    if d.value is not None and isinstance(d.value, ast.Call) and (ctx.res.external_name(fi, d.value) or "").startswith("numpy.random."):
                        if fi not in out:
                            out.append(fi)
    return out


def rule_a(ctx: Context, R: Reporter):
    funcs = prior_draw_functions(ctx)
    R.floor("C11.a", "prior-draw functions", len(funcs), 1)
    n = 0
    for fi in funcs:
        flow = flow_of(fi.node)
        for a in ctx.state.in_func(fi, include_nested=False):
            if a.mode != "write" or a.key != "logz":
                continue
            n += 1
            wn = flow.node_containing(a.call)
            rx = ExprResolver(fi.node).resolve(a.value, wn)
            reads_logz = [c for c in ast.walk(rx) if isinstance(c, ast.Call) and isinstance(c.func, ast.Attribute) and c.func.attr in ("get_current", "get_last_history", "get_history")
                          and isinstance(call_arg(c, 0, "key"), ast.Constant) and call_arg(c, 0, "key").value == "logz"]
            R.check(
                "C11.a", "warm-up logz is the batch's own log supported fraction, not an update of the current logz", not reads_logz, fi, a.call,
                msg=f"{fi.short}: `{unparse(a.call)}` with value `{unparse(rx)[:90]}` adds to the current logz; the reweighting step has already recorded the pooled "
                    f"estimate, so the supported fraction is counted once per warm-up iteration",
                witness={"resolved_value": unparse(rx)}, key="logz-accumulates" if reads_logz else f"logz-write:{fi.short}",
            )
            leaves, _ = expr_leaves(fi.node, a.value, wn)
            dep = any(l.kind == "call" and l.text.split(".")[-1] in ("isinf", "isfinite", "isneginf") for l in leaves)
            R.check("C11.a", "warm-up logz depends on the finite / -inf split of the batch", dep, fi, a.call,
                    msg=f"{fi.short}: the value written to logz does not depend on the -inf mask of the batch", key=f"logz-depends-on-mask:{fi.short}")
            is_log = any(isinstance(c, ast.Call) and (ctx.res.external_name(fi, c) or "") in ("numpy.log", "math.log") for c in ast.walk(rx))
            R.check("C11.a", "warm-up logz is a logarithm of a ratio of counts", is_log, fi, a.call,
                    msg=f"{fi.short}: value `{unparse(rx)[:80]}` is not the log of the supported fraction", key=f"logz-is-log:{fi.short}")
    R.floor("C11.a", "logz writes in the prior-draw branch", n, 1)


def _canon_guard(test: ast.expr, pol: bool) -> str:
    """Canonical description of the condition under which the replacement is
    skipped: every spelling of "the collection X is empty" maps to empty(X)."""
    t = test
    if isinstance(t, ast.UnaryOp) and isinstance(t.op, ast.Not):
        return _canon_guard(t.operand, not pol)
    size_of = None
    if isinstance(t, ast.Compare) and len(t.ops) == 1:
        l, r, op = t.left, t.comparators[0], type(t.ops[0]).__name__
        if isinstance(l, ast.Constant) and not isinstance(r, ast.Constant):
            l, r = r, l
            op = {"Lt": "Gt", "Gt": "Lt", "LtE": "GtE", "GtE": "LtE"}.get(op, op)
        if isinstance(l, ast.Call) and dotted(l.func) == "len" and l.args:
            size_of = l.args[0]
        elif isinstance(l, ast.Attribute) and l.attr == "size":
            size_of = l.value
        c = r.value if isinstance(r, ast.Constant) else None
        if size_of is not None and c in (0, 1):
            nonempty_when_true = (op, c) in (("Gt", 0), ("NotEq", 0), ("GtE", 1))
            empty_when_true = (op, c) in (("Eq", 0), ("LtE", 0), ("Lt", 1))
            if nonempty_when_true or empty_when_true:
                is_empty = (empty_when_true and pol) or (nonempty_when_true and not pol)
                return f"{'empty' if is_empty else 'nonempty'}({norm_text(size_of)})"
    if isinstance(t, ast.Call) and dotted(t.func) == "len" and t.args:
        return f"{'nonempty' if pol else 'empty'}({norm_text(t.args[0])})"
    if isinstance(t, ast.Attribute) and t.attr == "size":
        return f"{'nonempty' if pol else 'empty'}({norm_text(t.value)})"
    return f"{norm_text(test)} is {pol}"


def rule_b(ctx: Context, R: Reporter):
    funcs = prior_draw_functions(ctx)
    n = 0
    for fi in funcs:
        flow = flow_of(fi.node)
        cfg = flow.cfg
        # the test on the -inf mask
        tests = []
        nonempty_pol = {}
        for nd in cfg.stmt_nodes():
            if nd.kind != "test":
                continue
            leaves, _ = expr_leaves(fi.node, nd.ast, nd)
            if any(l.kind == "call" and l.text.split(".")[-1] in ("isinf", "isfinite") for l in leaves) and any(l.kind == "call" and l.text.split(".")[-1] in ("any", "sum", "all", "count_nonzero") for l in leaves):
                if isinstance(nd.ast, ast.Call):
                    tests.append(nd)
                    nonempty_pol[nd.id] = True
                elif isinstance(nd.ast, ast.UnaryOp) and isinstance(nd.ast.op, ast.Not) and isinstance(nd.ast.operand, ast.Call):
                    # guard clause `if not np.any(mask): return`
                    tests.append(nd)
                    nonempty_pol[nd.id] = False
        sites = [s for s in discover_sites(ctx, fi) if {"u", "x", "logl"} <= s.fields()]
        for t in tests:
            n += 1
            site_nodes = set()
            for s in sites:
                if all(m.dst_index is not None for m in s.moves):
                    site_nodes |= {m.node.id for m in s.moves}
            true_succ = [x for (x, lab) in cfg.succ[t.id] if lab and lab[0] == "cond" and lab[2] is nonempty_pol.get(t.id, True)]
            ok = bool(site_nodes) and bool(true_succ)
            path = None
            skip_guard = ""
            for ts in true_succ:
                if ts in site_nodes:
                    continue
                if ts == cfg.exit.id or cfg.reaches(ts, cfg.exit.id, blocked=site_nodes):
                    ok = False
                    p = cfg.find_path(ts, cfg.exit.id, blocked=site_nodes) or [ts]
                    path = [repr(cfg.nodes[i]) for i in p][:10]
                    # the condition under which the replacement is skipped (part of the finding's identity)
                    for i, j in zip(p, p[1:]):
                        for (tt, lab) in cfg.succ[i]:
                            if tt == j and lab and lab[0] == "cond" and cfg.nodes[i].id != t.id and any(cfg.reaches(x, sn) or x == sn for sn in site_nodes for (x, l2) in cfg.succ[i] if l2 and l2[0] == "cond" and l2[2] != lab[2]):
                                skip_guard = _canon_guard(lab[1], lab[2])
            R.check(
                "C11.b", "every path with a non-empty -inf mask passes the joint replacement", ok, fi, t.ast,
                msg=f"{fi.short}: after `{unparse(t.ast)}` is true there is a path to the end of the function that never replaces the -inf rows "
                    f"(e.g. when no finite draw exists): a batch with -inf log-likelihoods is stored",
                witness={"path": path, "skipped_when": skip_guard}, key=f"inf-mask-path-without-replacement[{skip_guard}]",
            )
            # counted once *per batch that needs it*: whenever the mask is non-empty the batch's own fraction is recorded
            wnodes = {flow.node_containing(a.call).id for a in ctx.state.in_func(fi, include_nested=False)
                      if a.mode == "write" and a.key == "logz" and flow.node_containing(a.call) is not None}
            skip = [ts for ts in true_succ if ts not in wnodes and (ts == cfg.exit.id or cfg.reaches(ts, cfg.exit.id, blocked=wnodes))]
            R.check("C11.b", "every batch with zero-likelihood draws records its own supported fraction", bool(wnodes) and not skip, fi, t.ast,
                    msg=f"{fi.short}: after `{unparse(t.ast)}` is true a path reaches the end of the function without writing `logz`: the unsupported fraction of that batch is not "
                        f"counted (e.g. a correction applied on the first prior batch only misses later batches that contain -inf draws)", key="inf-mask-path-without-logz")
    R.floor("C11.b", "tests on the -inf mask", n, 1)


def rule_c(ctx: Context, R: Reporter):
    """The joint replacement writes the rows selected by the -inf mask from rows
    drawn (with replacement, one per bad row) among the rows selected by the
    complementary mask, of the same batch."""
    funcs = prior_draw_functions(ctx)
    n = 0
    for fi in funcs:
        flow = flow_of(fi.node)
        sites = [s for s in discover_sites(ctx, fi) if {"u", "x", "logl"} <= s.fields() and all(m.dst_index is not None for m in s.moves)]
        for s in sites:
            n += 1
            m0 = s.moves[0]
            tgt_name = s.index_name
            src_names = {m.src_index[0] for m in s.moves if m.src_index is not None}
            rs = ExprResolver(fi.node)
            tdefs = flow.reaching(m0.node, tgt_name)
            # target index = all_idx[mask] with mask = isinf(logl) of this batch
            t_ok = False
            mask_txt = None
            for d in tdefs:
                rx = rs.resolve(d.value, d.node) if d.value is not None else None
                if rx is not None and isinstance(rx, ast.Subscript):
                    sl = rx.slice
                    if isinstance(sl, ast.Call) and (ctx.res.external_name(fi, sl) or "") in ("numpy.isinf",) or (isinstance(sl, ast.UnaryOp) and isinstance(sl.op, ast.Invert) and isinstance(sl.operand, ast.Call) and (ctx.res.external_name(fi, sl.operand) or "") == "numpy.isfinite"):
                        t_ok = True
                        mask_txt = norm_text(sl)
            R.check("C11.c", "the replaced rows are exactly the rows with infinite log-likelihood", t_ok, fi, m0.stmt,
                    msg=f"{fi.short}: target index `{tgt_name}` of the joint replacement is not all_idx[isinf(logl)]", key="replace-target")
            s_ok = False
            for sn in src_names:
                for d in flow.reaching(m0.node, sn):
                    v = d.value
                    if isinstance(v, ast.Call) and (ctx.res.external_name(fi, v) or "") == "numpy.random.choice":
                        pop0 = call_arg(v, 0, "a")
                        pop = rs.resolve(pop0, d.node) if pop0 is not None else None
                        size = call_arg(v, 1, "size")
                        rep = call_arg(v, 2, "replace")
                        comp = pop is not None and isinstance(pop, ast.Subscript) and isinstance(pop.slice, ast.UnaryOp) and isinstance(pop.slice.op, ast.Invert) and mask_txt is not None and norm_text(pop.slice.operand) == mask_txt
                        size_ok = size is not None and norm_text(size) == f"len({tgt_name})"
                        rep_ok = rep is None or (isinstance(rep, ast.Constant) and rep.value is True)
                        s_ok = comp and size_ok and rep_ok
            R.check("C11.c", "replacement rows are drawn, one per bad row and with replacement, among the finite rows of the same batch", s_ok, fi, m0.stmt,
                    msg=f"{fi.short}: the source index of the joint replacement is not np.random.choice(all_idx[~mask], size=len({tgt_name}), replace=True): a replaced particle could keep or receive a -inf row", key="replace-source")
    R.floor("C11.c", "joint replacement sites", n, 1)


class _CountUndecided(Exception):
    pass


def _count_eval(ctx: Context, fi: FuncInfo, flow, e: ast.expr, at, depth: int = 0) -> Tuple[int, int]:
    """Value of a counting expression as (coefficient of #finite rows, coefficient
    of #infinite rows) of the prior batch; (1, 1) is the batch size."""
    if depth > 12:
        raise _CountUndecided("depth")

    def mask_kind(m: ast.expr, at2) -> Optional[str]:
        """'I' for the -inf mask, 'F' for its complement."""
        if isinstance(m, ast.UnaryOp) and isinstance(m.op, (ast.Invert, ast.Not)):
            k = mask_kind(m.operand, at2)
            return {"I": "F", "F": "I"}.get(k)
        if isinstance(m, ast.Call):
            nm = ctx.res.external_name(fi, m) or ""
            if nm in ("numpy.isinf", "numpy.isneginf"):
                return "I"
            if nm == "numpy.isfinite":
                return "F"
            if nm == "numpy.logical_not" and m.args:
                return {"I": "F", "F": "I"}.get(mask_kind(m.args[0], at2))
        if isinstance(m, ast.Name):
            ds = flow.reaching(at2, m.id)
            if len(ds) == 1 and ds[0].kind == "assign" and ds[0].value is not None and not ds[0].path:
                return mask_kind(ds[0].value, ds[0].node)
        if isinstance(m, ast.Compare) and len(m.ops) == 1 and isinstance(m.ops[0], ast.Eq) and "inf" in norm_text(m.comparators[0]):
            return "I"
        return None

    def rows_of(x: ast.expr, at2, d2=0) -> Tuple[int, int]:
        """Number of rows of an array-valued expression."""
        if d2 > 12:
            raise _CountUndecided("depth")
        if isinstance(x, ast.Subscript):
            k = mask_kind(x.slice, at2)
            if k is not None:
                base = rows_of(x.value, at2, d2 + 1)
                if base != (1, 1):
                    raise _CountUndecided("mask applied to a subset")
                return (1, 0) if k == "F" else (0, 1)
            raise _CountUndecided(f"selection `{unparse(x)[:40]}`")
        if isinstance(x, ast.ListComp) and len(x.generators) == 1 and not x.generators[0].ifs:
            it = x.generators[0].iter
            if isinstance(it, ast.Call) and dotted(it.func) == "range" and len(it.args) == 1:
                return _count_eval(ctx, fi, flow, it.args[0], at2, depth + 1)
            if isinstance(it, ast.Call) and dotted(it.func) in ("enumerate", "zip", "list", "iter") and it.args:
                return rows_of(it.args[0], at2, d2 + 1)
            return rows_of(it, at2, d2 + 1)
        if isinstance(x, ast.Call) and (ctx.res.external_name(fi, x) or "") in ("numpy.array", "numpy.asarray", "numpy.stack", "numpy.vstack") and x.args and isinstance(x.args[0], ast.ListComp):
            return rows_of(x.args[0], at2, d2 + 1)
        if isinstance(x, ast.Call):
            nm = ctx.res.external_name(fi, x) or ""
            if nm == "numpy.arange" and len(x.args) == 1:
                return _count_eval(ctx, fi, flow, x.args[0], at2, depth + 1)
            if nm in ("numpy.flatnonzero", "numpy.argwhere") and x.args:
                k = mask_kind(x.args[0], at2)
                if k:
                    return (1, 0) if k == "F" else (0, 1)
            if nm in ("numpy.asarray", "numpy.array", "numpy.copy") and x.args:
                return rows_of(x.args[0], at2, d2 + 1)
            if nm in ("numpy.random.rand", "numpy.random.random", "numpy.random.random_sample", "numpy.random.uniform", "numpy.zeros", "numpy.ones", "numpy.empty") and (x.args or x.keywords):
                shp = x.args[0] if (x.args and nm == "numpy.random.rand") else (call_arg(x, 0, "size") if nm.startswith("numpy.random.") else call_arg(x, 0, "shape"))
                if nm == "numpy.random.uniform":
                    shp = call_arg(x, 2, "size")
                if isinstance(shp, (ast.Tuple, ast.List)) and shp.elts:
                    shp = shp.elts[0]
                if shp is not None:
                    return _count_eval(ctx, fi, flow, shp, at2, depth + 1)
            # the likelihood wrapper / prior transform evaluated on the batch: one row per point
            raise _CountUndecided(f"rows of `{unparse(x)[:40]}`")
        if isinstance(x, ast.Name):
            ds = flow.reaching(at2, x.id)
            vals = set()
            for d in ds:
                if d.kind == "assign" and d.value is not None:
                    if d.path:
                        # (logl, blobs) = wrapper(x): rows of the argument
                        if isinstance(d.value, ast.Call) and d.value.args:
                            vals.add(rows_of(d.value.args[0], d.node, d2 + 1))
                            continue
                        raise _CountUndecided(f"rows of `{x.id}`")
                    if isinstance(d.value, ast.Call) and (ctx.res.external_name(fi, d.value) or "") == "numpy.array" and d.value.args and isinstance(d.value.args[0], ast.ListComp):
                        it = d.value.args[0].generators[0].iter
                        if isinstance(it, ast.Call) and dotted(it.func) == "range" and len(it.args) == 1:
                            vals.add(_count_eval(ctx, fi, flow, it.args[0], d.node, depth + 1))
                            continue
                    vals.add(rows_of(d.value, d.node, d2 + 1))
                elif d.kind in ("aug", "substore"):
                    continue
                else:
                    raise _CountUndecided(f"rows of `{x.id}`")
            if len(vals) == 1:
                return vals.pop()
            raise _CountUndecided(f"rows of `{x.id}` ({len(vals)} values)")
        raise _CountUndecided(f"rows of `{unparse(x)[:40]}`")

    if isinstance(e, ast.Constant) and isinstance(e.value, (int, float)) and e.value == 0:
        return (0, 0)
    if isinstance(e, ast.Attribute) and norm_text(e) == "self.n_particles":
        return (1, 1)
    if isinstance(e, ast.Attribute) and e.attr == "size":
        return rows_of(e.value, at)
    if isinstance(e, ast.Subscript) and isinstance(e.value, ast.Attribute) and e.value.attr == "shape" and const_value_(e.slice) == 0:
        return rows_of(e.value.value, at)
    if isinstance(e, ast.BinOp) and isinstance(e.op, (ast.Add, ast.Sub)):
        l = _count_eval(ctx, fi, flow, e.left, at, depth + 1)
        r = _count_eval(ctx, fi, flow, e.right, at, depth + 1)
        s = 1 if isinstance(e.op, ast.Add) else -1
        return (l[0] + s * r[0], l[1] + s * r[1])
    if isinstance(e, ast.Call):
        nm = ctx.res.external_name(fi, e) or dotted(e.func)
        if nm in ("builtins.len", "len") and e.args:
            return rows_of(e.args[0], at)
        if nm in ("builtins.int", "builtins.float", "int", "float") and e.args:
            return _count_eval(ctx, fi, flow, e.args[0], at, depth + 1)
        if nm in ("numpy.count_nonzero", "numpy.sum", "builtins.sum") and e.args:
            # evaluated on a mask *variable* computed before the in-place replacement
            k = mask_kind(e.args[0], at) if isinstance(e.args[0], (ast.Name, ast.UnaryOp)) and not any(isinstance(x, ast.Call) for x in ast.walk(e.args[0])) else None
            if k:
                return (1, 0) if k == "F" else (0, 1)
            raise _CountUndecided(f"count of `{unparse(e.args[0])[:40]}`")
        if isinstance(e.func, ast.Attribute) and e.func.attr == "sum" and not e.args:
            k = mask_kind(e.func.value, at) if isinstance(e.func.value, (ast.Name, ast.UnaryOp)) and not any(isinstance(x, ast.Call) for x in ast.walk(e.func.value)) else None
            if k:
                return (1, 0) if k == "F" else (0, 1)
        raise _CountUndecided(f"`{unparse(e)[:40]}`")
    if isinstance(e, ast.Name):
        ds = flow.reaching(at, e.id)
        if len(ds) == 1 and ds[0].kind == "assign" and ds[0].value is not None and not ds[0].path:
            return _count_eval(ctx, fi, flow, ds[0].value, ds[0].node, depth + 1)
        raise _CountUndecided(f"`{e.id}` has {len(ds)} definitions")
    raise _CountUndecided(f"`{unparse(e)[:40]}`")


def const_value_(e):
    return e.value if isinstance(e, ast.Constant) else None


def rule_d(ctx: Context, R: Reporter):
    """C11.d  the recorded fraction is (#finite rows of the batch) / (batch size):
    the numerator and denominator of the ratio inside the logarithm are evaluated
    in a small count algebra over F = #finite, I = #infinite, N = F + I."""
    funcs = prior_draw_functions(ctx)
    n = 0
    for fi in funcs:
        flow = flow_of(fi.node)
        for a in ctx.state.in_func(fi, include_nested=False):
            if a.mode != "write" or a.key != "logz":
                continue
            wn = flow.node_containing(a.call)
            # find log(<num> / <den>) through plain local names
            v = a.value
            at = wn
            hops = 0
            while isinstance(v, ast.Name) and hops < 6:
                ds = flow.reaching(at, v.id)
                if len(ds) != 1 or ds[0].value is None or ds[0].path:
                    break
                v, at = ds[0].value, ds[0].node
                hops += 1
            logs = [c for c in ast.walk(v) if isinstance(c, ast.Call) and (ctx.res.external_name(fi, c) or "") in ("numpy.log", "math.log")] if isinstance(v, ast.AST) else []
            ratio = None
            for lg in logs:
                arg = lg.args[0] if lg.args else None
                hops = 0
                at2 = at
                while isinstance(arg, ast.Name) and hops < 6:
                    ds = flow.reaching(at2, arg.id)
                    if len(ds) != 1 or ds[0].value is None or ds[0].path:
                        break
                    arg, at2 = ds[0].value, ds[0].node
                    hops += 1
                if isinstance(arg, ast.BinOp) and isinstance(arg.op, ast.Div):
                    ratio = (arg, at2)
            if ratio is None:
                continue  # C11.a reports a value that is not the log of a ratio
            n += 1
            arg, at2 = ratio
            try:
                num = _count_eval(ctx, fi, flow, arg.left, at2)
                den = _count_eval(ctx, fi, flow, arg.right, at2)
            except _CountUndecided as ex:
                raise AnalysisError(f"C11.d: cannot evaluate the counts in `{unparse(arg)[:60]}`: {ex}")

            def show(c):
                return f"{c[0]}*#finite + {c[1]}*#infinite"

            R.check("C11.d", "the numerator of the recorded fraction is the number of finite draws of the batch", num == (1, 0), fi, arg,
                    msg=f"{fi.short}: numerator `{unparse(arg.left)[:50]}` evaluates to {show(num)}, not #finite: the recorded evidence is not the log of the supported fraction",
                    witness={"numerator": show(num), "denominator": show(den)}, key="fraction-numerator")
            R.check("C11.d", "the denominator of the recorded fraction is the batch size", den == (1, 1), fi, arg,
                    msg=f"{fi.short}: denominator `{unparse(arg.right)[:50]}` evaluates to {show(den)}, not the batch size #finite + #infinite",
                    witness={"numerator": show(num), "denominator": show(den)}, key="fraction-denominator")
    R.floor("C11.d", "recorded fractions evaluated", n, 1)


def run(ctx: Context, R: Reporter):
    R.guard(rule_d, ctx, R)
    R.guard(rule_a, ctx, R)
    R.guard(rule_b, ctx, R)
    R.guard(rule_c, ctx, R)


def variants():
    from ..variants import Variant, alpha_rename, replace_expr, replace_stmt

    mu = "tempest/steps/mutate.py"
    return [
        Variant("z-replacement-stored-through-mask-copy", "bad", replace_stmt(mu, "Mutator.run", "logl[infinite_idx] = logl[idx]", "logl[inf_logl_mask][:] = logl[idx]"), ["C11.z", "C11.c", "ANALYSIS-ERROR"], quick=True),
        Variant("a-accumulate", "bad", replace_stmt(mu, "Mutator.run", "logz = np.log(n_finite / n_total)", "logz = self.state.get_current('logz') + np.log(n_finite / n_total)"), ["C11.a"], quick=True),
        Variant("a-accumulate-hoisted", "bad", replace_stmt(mu, "Mutator.run", "logz = np.log(n_finite / n_total)", "prev = self.state.get_current('logz')\nlogz = prev + np.log(n_finite / n_total)"), ["C11.a"], quick=True),
        Variant("a-constant", "bad", replace_stmt(mu, "Mutator.run", "logz = np.log(n_finite / n_total)", "logz = 0.0"), ["C11.a"]),
        Variant("c-source-from-all", "bad", replace_expr(mu, "Mutator.run", "np.random.choice(finite_idx, size=len(infinite_idx), replace=True)", "np.random.choice(all_idx, size=len(infinite_idx), replace=True)"), ["C11.c"], quick=True),
        Variant("c-target-finite", "bad", replace_expr(mu, "Mutator.run", "all_idx[inf_logl_mask]", "all_idx[~inf_logl_mask]", 0), ["C11.c", "C11.b"]),
        Variant("d-count-infinite", "bad", replace_stmt(mu, "Mutator.run", "n_finite = len(finite_idx)", "n_finite = len(logl) - np.count_nonzero(~inf_logl_mask)"), ["C11.d"], quick=True),
        Variant("d-denominator-finite", "bad", replace_stmt(mu, "Mutator.run", "n_total = len(logl)", "n_total = len(finite_idx)"), ["C11.d"]),
        Variant("d-count-by-mask-benign", "benign", replace_stmt(mu, "Mutator.run", "n_finite = len(finite_idx)", "n_finite = np.count_nonzero(~inf_logl_mask)")),
        Variant("d-count-by-difference-benign", "benign", replace_stmt(mu, "Mutator.run", "n_finite = len(finite_idx)", "n_finite = len(logl) - len(infinite_idx)")),
        Variant("benign-rename", "benign", alpha_rename(mu, "Mutator.run", "n_finite", "n_ok"), quick=True),
    ]
