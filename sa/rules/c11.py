"""C11  Zero-likelihood prior regions are excluded and counted exactly once.

  C11.a  counted once: in the prior-draw branch of the mutation step the value
         written to key `logz` is the batch's own log supported fraction; it is
         not an update of the current `logz` (which the reweighting step has
         already set to the pooled estimate from history)
  C11.b  no -inf stored: every path through the prior-draw branch on which the
         -inf mask is non-empty passes the joint replacement before returning
  (C11.c joint replacement is C07.a's site; -inf never accepted is C03.c)
"""
from __future__ import annotations

import ast
from typing import List, Optional, Tuple

from ..cfg import cfg_of
from ..dataflow import Resolver as ExprResolver
from ..dataflow import expr_leaves, flow_of
from ..engine import Context, Reporter
from ..model import AnalysisError, FuncInfo, norm_text, walk_no_nested
from ..records import discover_sites
from ..util import call_arg, calls_in_node, conds_holding_at, unparse

PROP = "C11"
EXPLANATION = (
    "Decides two structural clauses in the prior-sampling branch of the mutation step: (a) the value stored under "
    "`logz` there depends on the batch's finite/-inf split and does not read the current `logz` (an additive update "
    "would count the supported fraction once per warm-up iteration, on top of the pooled estimate the reweighting "
    "step already recorded); (b) every CFG path on which the -inf mask is non-empty passes the joint replacement "
    "of -inf rows before the function returns. Convergence of the final evidence to the integral is not decided."
)
ASSUMPTIONS = ["np.isinf/np.isfinite identify zero-likelihood draws", "the reweighting step sets logz from history before the mutation step runs (C05.e pipeline order)"]


def prior_draw_functions(ctx: Context) -> List[FuncInfo]:
    """Functions that store under key 'u' an array drawn from the global uniform generator."""
    out = []
    for fi in ctx.prog.functions.values():
        flow = flow_of(fi.node)
        for a in ctx.state.in_func(fi, include_nested=False):
            if a.mode == "write" and a.key == "u" and isinstance(a.value, ast.Name):
                wn = flow.node_containing(a.call)
                for d in flow.reaching(wn, a.value.id):
                    if d.value is not None and isinstance(d.value, ast.Call) and (ctx.res.external_name(fi, d.value) or "").startswith("numpy.random."):
                        if fi not in out:
                            out.append(fi)
    return out


def rule_a(ctx: Context, R: Reporter):
    funcs = prior_draw_functions(ctx)
    R.floor("C11.a", "prior-draw functions", len(funcs), 1)
    n = 0
    for fi in funcs:
        flow = flow_of(fi.node)
        for a in ctx.state.in_func(fi, include_nested=False):
            if a.mode != "write" or a.key != "logz":
                continue
            n += 1
            wn = flow.node_containing(a.call)
            rx = ExprResolver(fi.node).resolve(a.value, wn)
            reads_logz = [c for c in ast.walk(rx) if isinstance(c, ast.Call) and isinstance(c.func, ast.Attribute) and c.func.attr in ("get_current", "get_last_history", "get_history")
                          and isinstance(call_arg(c, 0, "key"), ast.Constant) and call_arg(c, 0, "key").value == "logz"]
            R.check(
                "C11.a", "warm-up logz is the batch's own log supported fraction, not an update of the current logz", not reads_logz, fi, a.call,
                msg=f"{fi.short}: `{unparse(a.call)}` with value `{unparse(rx)[:90]}` adds to the current logz; the reweighting step has already recorded the pooled "
                    f"estimate, so the supported fraction is counted once per warm-up iteration",
                witness={"resolved_value": unparse(rx)}, key="logz-accumulates" if reads_logz else f"logz-write:{fi.short}",
            )
            leaves, _ = expr_leaves(fi.node, a.value, wn)
            dep = any(l.kind == "call" and l.text.split(".")[-1] in ("isinf", "isfinite", "isneginf") for l in leaves)
            R.check("C11.a", "warm-up logz depends on the finite / -inf split of the batch", dep, fi, a.call,
                    msg=f"{fi.short}: the value written to logz does not depend on the -inf mask of the batch", key=f"logz-depends-on-mask:{fi.short}")
            is_log = any(isinstance(c, ast.Call) and (ctx.res.external_name(fi, c) or "") in ("numpy.log", "math.log") for c in ast.walk(rx))
            R.check("C11.a", "warm-up logz is a logarithm of a ratio of counts", is_log, fi, a.call,
                    msg=f"{fi.short}: value `{unparse(rx)[:80]}` is not the log of the supported fraction", key=f"logz-is-log:{fi.short}")
    R.floor("C11.a", "logz writes in the prior-draw branch", n, 1)


def rule_b(ctx: Context, R: Reporter):
    funcs = prior_draw_functions(ctx)
    n = 0
    for fi in funcs:
        flow = flow_of(fi.node)
        cfg = flow.cfg
        # the test on the -inf mask
        tests = []
        for nd in cfg.stmt_nodes():
            if nd.kind != "test":
                continue
            leaves, _ = expr_leaves(fi.node, nd.ast, nd)
            if any(l.kind == "call" and l.text.split(".")[-1] in ("isinf", "isfinite") for l in leaves) and any(l.kind == "call" and l.text.split(".")[-1] in ("any", "sum", "all", "count_nonzero") for l in leaves):
                if isinstance(nd.ast, ast.Call):
                    tests.append(nd)
        sites = [s for s in discover_sites(ctx, fi) if {"u", "x", "logl"} <= s.fields()]
        for t in tests:
            n += 1
            site_nodes = set()
            for s in sites:
                if all(m.dst_index is not None for m in s.moves):
                    site_nodes |= {m.node.id for m in s.moves}
            true_succ = [x for (x, lab) in cfg.succ[t.id] if lab and lab[0] == "cond" and lab[2] is True]
            ok = bool(site_nodes) and bool(true_succ)
            path = None
            skip_guard = ""
            for ts in true_succ:
                if ts in site_nodes:
                    continue
                if ts == cfg.exit.id or cfg.reaches(ts, cfg.exit.id, blocked=site_nodes):
                    ok = False
                    p = cfg.find_path(ts, cfg.exit.id, blocked=site_nodes) or [ts]
                    path = [repr(cfg.nodes[i]) for i in p][:10]
                    # the condition under which the replacement is skipped (part of the finding's identity)
                    for i, j in zip(p, p[1:]):
                        for (tt, lab) in cfg.succ[i]:
                            if tt == j and lab and lab[0] == "cond" and cfg.nodes[i].id != t.id and any(cfg.reaches(x, sn) or x == sn for sn in site_nodes for (x, l2) in cfg.succ[i] if l2 and l2[0] == "cond" and l2[2] != lab[2]):
                                skip_guard = f"{norm_text(lab[1])} is {lab[2]}"
            R.check(
                "C11.b", "every path with a non-empty -inf mask passes the joint replacement", ok, fi, t.ast,
                msg=f"{fi.short}: after `{unparse(t.ast)}` is true there is a path to the end of the function that never replaces the -inf rows "
                    f"(e.g. when no finite draw exists): a batch with -inf log-likelihoods is stored",
                witness={"path": path, "skipped_when": skip_guard}, key=f"inf-mask-path-without-replacement[{skip_guard}]",
            )
    R.floor("C11.b", "tests on the -inf mask", n, 1)


def rule_c(ctx: Context, R: Reporter):
    """The joint replacement writes the rows selected by the -inf mask from rows
    drawn (with replacement, one per bad row) among the rows selected by the
    complementary mask, of the same batch."""
    funcs = prior_draw_functions(ctx)
    n = 0
    for fi in funcs:
        flow = flow_of(fi.node)
        sites = [s for s in discover_sites(ctx, fi) if {"u", "x", "logl"} <= s.fields() and all(m.dst_index is not None for m in s.moves)]
        for s in sites:
            n += 1
            m0 = s.moves[0]
            tgt_name = s.index_name
            src_names = {m.src_index[0] for m in s.moves if m.src_index is not None}
            rs = ExprResolver(fi.node)
            tdefs = flow.reaching(m0.node, tgt_name)
            # target index = all_idx[mask] with mask = isinf(logl) of this batch
            t_ok = False
            mask_txt = None
            for d in tdefs:
                rx = rs.resolve(d.value, d.node) if d.value is not None else None
                if rx is not None and isinstance(rx, ast.Subscript):
                    sl = rx.slice
                    if isinstance(sl, ast.Call) and (ctx.res.external_name(fi, sl) or "") in ("numpy.isinf",) or (isinstance(sl, ast.UnaryOp) and isinstance(sl.op, ast.Invert) and isinstance(sl.operand, ast.Call) and (ctx.res.external_name(fi, sl.operand) or "") == "numpy.isfinite"):
                        t_ok = True
                        mask_txt = norm_text(sl)
            R.check("C11.c", "the replaced rows are exactly the rows with infinite log-likelihood", t_ok, fi, m0.stmt,
                    msg=f"{fi.short}: target index `{tgt_name}` of the joint replacement is not all_idx[isinf(logl)]", key="replace-target")
            s_ok = False
            for sn in src_names:
                for d in flow.reaching(m0.node, sn):
                    v = d.value
                    if isinstance(v, ast.Call) and (ctx.res.external_name(fi, v) or "") == "numpy.random.choice":
                        pop = rs.resolve(v.args[0], d.node) if v.args else None
                        size = call_arg(v, 1, "size")
                        rep = call_arg(v, 2, "replace")
                        comp = pop is not None and isinstance(pop, ast.Subscript) and isinstance(pop.slice, ast.UnaryOp) and isinstance(pop.slice.op, ast.Invert) and mask_txt is not None and norm_text(pop.slice.operand) == mask_txt
                        size_ok = size is not None and norm_text(size) == f"len({tgt_name})"
                        rep_ok = rep is None or (isinstance(rep, ast.Constant) and rep.value is True)
                        s_ok = comp and size_ok and rep_ok
            R.check("C11.c", "replacement rows are drawn, one per bad row and with replacement, among the finite rows of the same batch", s_ok, fi, m0.stmt,
                    msg=f"{fi.short}: the source index of the joint replacement is not np.random.choice(all_idx[~mask], size=len({tgt_name}), replace=True): a replaced particle could keep or receive a -inf row", key="replace-source")
    R.floor("C11.c", "joint replacement sites", n, 1)


def run(ctx: Context, R: Reporter):
    R.guard(rule_a, ctx, R)
    R.guard(rule_b, ctx, R)
    R.guard(rule_c, ctx, R)


def variants():
    from ..variants import Variant, alpha_rename, replace_expr, replace_stmt

    mu = "tempest/steps/mutate.py"
    return [
        Variant("a-accumulate", "bad", replace_stmt(mu, "Mutator.run", "logz = np.log(n_finite / n_total)", "logz = self.state.get_current('logz') + np.log(n_finite / n_total)"), ["C11.a"], quick=True),
        Variant("a-accumulate-hoisted", "bad", replace_stmt(mu, "Mutator.run", "logz = np.log(n_finite / n_total)", "prev = self.state.get_current('logz')\nlogz = prev + np.log(n_finite / n_total)"), ["C11.a"], quick=True),
        Variant("a-constant", "bad", replace_stmt(mu, "Mutator.run", "logz = np.log(n_finite / n_total)", "logz = 0.0"), ["C11.a"]),
        Variant("c-source-from-all", "bad", replace_expr(mu, "Mutator.run", "np.random.choice(finite_idx, size=len(infinite_idx), replace=True)", "np.random.choice(all_idx, size=len(infinite_idx), replace=True)"), ["C11.c"], quick=True),
        Variant("c-target-finite", "bad", replace_expr(mu, "Mutator.run", "all_idx[inf_logl_mask]", "all_idx[~inf_logl_mask]", 0), ["C11.c", "C11.b"]),
        Variant("benign-rename", "benign", alpha_rename(mu, "Mutator.run", "n_finite", "n_ok"), quick=True),
    ]
