"""C20  Weight utilities: ESS bounds, trimming contract, affine-invariant volume metric.

  C20.a  alignment: returned samples and weights are selected by the same mask
         definition
  C20.b  upper set: the mask is `weights >= threshold`, threshold a percentile of
         the same weights
  C20.c  exit guard: the search loop is left only where
         `ess_trimmed / ess_total >= ess` holds for that iteration's normalised
         subset; the search starts at the top percentile and only decrements
  C20.d  scale typing (homogeneity degree under weights -> s*weights): ESS,
         trimmed weights and the volume metric have degree 0, no mixed-degree
         arithmetic, and no power of un-normalised weights (overflow hazard)
  C20.e  ESS form (power-sum algebra): every ESS computation equals S1^2/S2 of
         its weight vector (which gives 1 <= ESS <= N, = N for uniform weights)
  C20.f  translation typing of the volume metric: the covariance is built from
         centred samples (no product of two translation-dependent factors)
"""
from __future__ import annotations

import ast
from fractions import Fraction
from typing import Dict, List, Optional, Tuple

from ..cfg import cfg_of
from ..dataflow import Resolver as ExprResolver
from ..dataflow import flow_of
from ..degree import INV, DegreeInterp, T, deg
from ..engine import Context, Reporter
from ..model import AnalysisError, FuncInfo, dotted, norm_text, walk_no_nested
from ..util import call_arg, calls_in, conds_holding_at, const_value, split_cond, unparse

PROP = "C20"
EXPLANATION = (
    "Decides the trimming contract structurally (one mask definition selects samples and weights; mask = weights >= "
    "percentile threshold of the same weights; the search loop can only be left where the ESS-ratio test of the "
    "current normalised subset holds; the search starts at the top percentile and only decrements), types every "
    "weight utility by homogeneity degree under rescaling of the weights (returns of degree 0, no mixed-degree "
    "arithmetic, no powers of un-normalised weights), proves by power-sum algebra that every ESS computation is "
    "S1^2/S2 of its weight vector (hence in [1, N] and N for uniform weights, independent of a common factor or of the "
    "max-shift of log-weights), and types the volume metric under translation of the samples (covariance from centred "
    "data). Invariance under general linear maps and floating-point conditioning are not decided."
)
ASSUMPTIONS = ["numpy reductions/percentile are positively homogeneous of degree 1 in their first argument", "exact arithmetic for the algebraic ESS identity (Cauchy-Schwarz gives the bounds)"]


def trim_fn(ctx: Context) -> FuncInfo:
    # role: a module-level routine with a search loop that returns (samples[<selection>], <weights>)
    def returns_selection(f):
        for r in walk_no_nested(f.node):
            if isinstance(r, ast.Return) and isinstance(r.value, ast.Tuple) and len(r.value.elts) == 2 and isinstance(r.value.elts[0], ast.Subscript) \
                    and isinstance(r.value.elts[0].value, ast.Name) and f.params and r.value.elts[0].value.id == f.params[0]:
                return True
            # the same selection spelled with a gather call: np.take(samples, idx[, axis]) / np.compress(mask, samples[, axis]) / samples.take(idx)
            if isinstance(r, ast.Return) and isinstance(r.value, ast.Tuple) and len(r.value.elts) == 2 and isinstance(r.value.elts[0], ast.Call) and f.params \
                    and dotted(r.value.elts[0].func).split(".")[-1] in ("take", "compress") \
                    and any(isinstance(x, ast.Name) and x.id == f.params[0] for x in ast.walk(r.value.elts[0])):
                return True
        return False

    cands = [f for f in ctx.prog.functions.values() if f.cls is None and f.parent is None and len(f.params) >= 2 and returns_selection(f)
             and any(isinstance(n, (ast.While, ast.For)) for n in walk_no_nested(f.node))]
    if len(cands) > 1:
        pc = [f for f in cands if any(isinstance(c, ast.Call) and (ctx.res.external_name(f, c) or "") == "numpy.percentile" for c in calls_in(f.node))]
        cands = pc or cands
    if len(cands) != 1:
        raise AnalysisError(f"C20: trimming routine (percentile search loop) not identified ({[c.short for c in cands]})")
    return cands[0]


def ess_fns(ctx: Context) -> List[FuncInfo]:
    out = []
    for f in ctx.prog.functions.values():
        if f.parent is not None or f.cls is not None:
            continue
        if len(f.params) == 1 and ("ess" in f.name or "effective_sample" in f.name):
            out.append(f)
    return out


def volume_fn(ctx: Context) -> FuncInfo:
    for f in ctx.prog.functions.values():
        if f.cls is None and f.parent is None and "w" in f.params and any(
                isinstance(c, ast.Call) and (ctx.res.external_name(f, c) or "") in ("numpy.linalg.inv", "numpy.linalg.pinv", "numpy.linalg.solve", "numpy.linalg.eigh", "numpy.linalg.cholesky",
                                                                                  "scipy.linalg.solve", "scipy.linalg.cho_solve", "scipy.linalg.eigh") for c in calls_in(f.node)):
            return f
    raise AnalysisError("C20: volume-variation metric not found")


def rule_abc(ctx: Context, R: Reporter, f: FuncInfo):
    flow = flow_of(f.node)
    cfg = flow.cfg
    samples_p, weights_p = f.params[0], f.params[1]
    ess_p = f.params[2] if len(f.params) > 2 else "ess"
    # the requested fraction is the caller's: it is not capped, floored or otherwise re-bound inside the routine
    for nd in cfg.stmt_nodes():
        if nd.kind != "stmt":
            continue
        st = nd.stmt
        tg = [x for t in (st.targets if isinstance(st, ast.Assign) else ([st.target] if isinstance(st, (ast.AugAssign, ast.AnnAssign)) else [])) for x in ast.walk(t)
              if isinstance(x, ast.Name) and isinstance(x.ctx, ast.Store)]
        if any(t.id == ess_p for t in tg):
            v = st.value if isinstance(st, (ast.Assign, ast.AnnAssign)) else None
            cast = isinstance(v, ast.Call) and dotted(v.func) in ("float", "np.float64") and len(v.args) == 1 and norm_text(v.args[0]) == ess_p
            R.check("C20.c", "the requested ESS fraction is not re-bound inside the trimming routine", cast, f, st,
                    msg=f"{f.short}: `{unparse(st)[:60]}` replaces the requested fraction `{ess_p}`: the search then stops at a subset that satisfies the *replaced* fraction (a cap at 0.99 "
                        f"turns every request in (0.99, 1) into 0.99), so the returned subset can have less than the requested share of the untrimmed ESS", key="requested-fraction-rebound")
    rets = [n for n in cfg.stmt_nodes() if n.kind == "stmt" and isinstance(n.stmt, ast.Return) and isinstance(n.stmt.value, ast.Tuple) and len(n.stmt.value.elts) == 2]
    R.floor("C20.a", "returns of the trimming routine", len(rets), 1)
    for rn in rets:
        s_e, w_e = rn.stmt.value.elts
        ok_a = False
        mask_name = None
        if isinstance(s_e, ast.Subscript) and isinstance(s_e.value, ast.Name) and s_e.value.id == samples_p and isinstance(s_e.slice, ast.Name):
            mask_name = s_e.slice.id
            mdefs = {d.node.id for d in flow.reaching(rn, mask_name) if d.node}
            if isinstance(w_e, ast.Name):
                wdefs = chain_defs(flow, rn, w_e.id)
                # the weights' base definition is weights[mask] with the same mask definition
                base = [d for d in wdefs if d.kind == "assign"]
                if base and all(isinstance(d.value, ast.Subscript) and isinstance(d.value.slice, ast.Name) and d.value.slice.id == mask_name and isinstance(d.value.value, ast.Name) and d.value.value.id == weights_p
                                and {x.node.id for x in flow.reaching(d.node, mask_name) if x.node} == mdefs for d in base):
                    ok_a = True
        if isinstance(s_e, ast.Call) and dotted(s_e.func).split(".")[-1] in ("take", "compress"):
            # numpy contract: take/compress without axis index the *flattened* array -- for samples of shape (n, d)
            # that returns k scalars, not k rows
            meth = isinstance(s_e.func, ast.Attribute) and isinstance(s_e.func.value, ast.Name) and s_e.func.value.id == samples_p
            ax = call_arg(s_e, 1 if meth else 2, "axis")
            ax_ok = ax is not None and const_value(ax) == 0
            R.check("C20.a", "the kept samples are gathered along the first axis (whole rows)", ax_ok, f, s_e,
                    msg=f"{f.short}: `{unparse(s_e)[:60]}` gathers from the flattened array (no axis=0): for samples with more than one dimension the result is k scalars taken from the "
                        f"first rows, not the k kept rows -- samples and weights are no longer aligned", key="row-gather")
            if not ax_ok:
                continue
            raise AnalysisError(f"C20.a: selection through `{unparse(s_e)[:40]}` is outside the rule's vocabulary (mask identity not followed through index arrays)")
        R.check("C20.a", "samples and weights are selected by the same mask definition", ok_a, f, rn.stmt,
                msg=f"{f.short}: `{unparse(rn.stmt)}`: the returned samples and weights are not selected by one mask (same name, same reaching definition)", key="same-mask")
        if mask_name is None:
            continue
        # C20.b: mask = weights >= threshold; threshold = percentile(weights, p)
        for d in flow.reaching(rn, mask_name):
            v = d.value
            ok_b = isinstance(v, ast.Compare) and len(v.ops) == 1 and isinstance(v.ops[0], ast.GtE) and isinstance(v.left, ast.Name) and v.left.id == weights_p
            thr_ok = False
            if ok_b:
                rx = ExprResolver(f.node).resolve(v.comparators[0], d.node)
                thr_ok = isinstance(rx, ast.Call) and (ctx.res.external_name(f, rx) or "") in ("numpy.percentile", "numpy.quantile") and rx.args and isinstance(rx.args[0], ast.Name) and rx.args[0].id == weights_p
            R.check("C20.b", "the kept set is the upper set `weights >= threshold`", ok_b, f, d.stmt,
                    msg=f"{f.short}: mask `{unparse(v)}` is not `{weights_p} >= threshold` (samples exactly at the threshold must be kept)", key="mask-upper-set")
            R.check("C20.b", "the threshold is a percentile of the same weights", thr_ok, f, d.stmt,
                    msg=f"{f.short}: threshold of `{unparse(v)}` is not np.percentile({weights_p}, p)", key="threshold-percentile")
    # C20.c: loop exits
    loops = [n for n in cfg.stmt_nodes() if (n.kind == "test" and isinstance(n.stmt, ast.While)) or (n.kind == "for" and not n.loops)]
    R.floor("C20.c", "search loops", len(loops), 1)
    for lp in loops:
        body = cfg.loop_body(lp.id)
        exits = [(a, b, lab) for a in body for (b, lab) in cfg.succ[a] if b not in body and b != cfg.raise_exit.id]
        if lp.kind == "for":
            # a `for` over the grid can also end by exhaustion; that exit is harmless only when it cannot happen
            # (an endless counter) or when the last candidate is p = 0, which keeps everything and always passes
            it = ExprResolver(f.node).resolve(lp.stmt.iter, lp)
            endless = isinstance(it, ast.Call) and (ctx.res.external_name(f, it) or dotted(it.func)).split(".")[-1] in ("count", "repeat", "cycle")
            rev = None
            if isinstance(it, ast.Subscript) and isinstance(it.slice, ast.Slice) and it.slice.lower is None and it.slice.upper is None and const_value(it.slice.step) == -1:
                rev = it.value
            elif isinstance(it, ast.Call) and dotted(it.func) == "reversed" and it.args:
                rev = it.args[0]
            ends_at_zero = isinstance(rev, ast.Call) and (ctx.res.external_name(f, rev) or "") == "numpy.linspace" and rev.args and const_value(rev.args[0]) == 0
            if endless or ends_at_zero:
                exits = [(a, b, lab) for (a, b, lab) in exits if not (a == lp.id and lab and lab[0] == "iter" and lab[1] is False)]
            top_down = endless or ends_at_zero
            if endless and isinstance(it, ast.Call) and len(it.args) >= 2:
                top_down = const_value(it.args[1]) == -1 or (isinstance(it.args[1], ast.UnaryOp) and isinstance(it.args[1].op, ast.USub) and const_value(it.args[1].operand) == 1)
            R.check("C20.c", "the search runs from the top percentile downwards", top_down or not (endless or ends_at_zero), f, lp.stmt,
                    msg=f"{f.short}: the grid `{unparse(it)[:50]}` is not traversed from the top", key="for-top-down")
        n_ok = 0
        for (a, b, lab) in exits:
            src = cfg.nodes[a]
            facts = conds_holding_at(cfg, src) if src.kind != "test" else conds_holding_at(cfg, src) + (split_cond(lab[1], lab[2]) if lab and lab[0] == "cond" else [])
            good = False
            for (t, pol) in facts:
                if isinstance(t, ast.Compare) and len(t.ops) == 1:
                    rx_l = ExprResolver(f.node).resolve(t.left, src)
                    rx_r = ExprResolver(f.node).resolve(t.comparators[0], src)
                    opn = type(t.ops[0]).__name__
                    is_ratio = isinstance(t.left, ast.BinOp) and isinstance(t.left.op, ast.Div)
                    if is_ratio and isinstance(t.comparators[0], ast.Name) and t.comparators[0].id == ess_p and ((opn == "GtE" and pol) or (opn == "Lt" and not pol)):
                        num, den = t.left.left, t.left.right
                        good = _ess_of_subset(ctx, f, flow, src, num, weights_p) and _ess_of_all(ctx, f, flow, src, den, weights_p)
            R.check("C20.c", "the search loop is left only where ess_trimmed/ess_total >= ess holds for the current subset", good, f, src.ast if src.ast is not None else lp.stmt,
                    msg=f"{f.short}: the loop can be left at `{unparse(src.ast)[:50]}` without the ESS-ratio test of the current normalised subset holding "
                        f"(the returned subset may have less than the requested fraction of the untrimmed ESS)", key=f"loop-exit:{norm_text(src.ast)[:40]}")
        # start at the top, only decrement
        idx_names = set()
        for n in cfg.stmt_nodes():
            if n.id in body and n.kind == "stmt" and isinstance(n.stmt, ast.AugAssign) and isinstance(n.stmt.target, ast.Name) and isinstance(const_value(n.stmt.value), int) and isinstance(n.stmt.op, (ast.Add, ast.Sub)):
                idx_names.add(n.stmt.target.id)
                ok = isinstance(n.stmt.op, ast.Sub) and const_value(n.stmt.value) == 1
                R.check("C20.c", "the percentile index only decrements by one", ok, f, n.stmt, msg=f"{f.short}: `{unparse(n.stmt)}`", key=f"decrement:{n.stmt.target.id}")
        for nm in idx_names:
            inits = [d for ds in flow.defs_at.values() for d in ds if d.name == nm and d.kind == "assign" and not d.node.loops]
            ok = bool(inits) and all(isinstance(d.value, ast.BinOp) and isinstance(d.value.op, ast.Sub) and const_value(d.value.right) == 1 and isinstance(d.value.left, ast.Name) and d.value.left.id in f.params for d in inits)
            R.check("C20.c", "the search starts at the top percentile (bins - 1)", ok, f, inits[0].stmt if inits else f.node,
                    msg=f"{f.short}: index `{nm}` starts at `{unparse(inits[0].value) if inits else None}`", key=f"start-top:{nm}")
        # percentile grid covers [0, 99] (so p = 0 keeps everything and always satisfies the guard)
        for c in calls_in(f.node):
            if (ctx.res.external_name(f, c) or "") == "numpy.linspace":
                ok = const_value(c.args[0]) == 0 and len(c.args) >= 3
                R.check("C20.c", "the percentile grid starts at 0 (keeping everything is always a candidate)", ok, f, c, msg=f"{f.short}: grid `{unparse(c)}`", key="grid-from-zero")


def chain_defs(flow, at, name, _seen=None):
    """Definitions of `name` reaching `at`, following in-place updates
    (x /= ...) back to the assignments they modify."""
    seen = _seen if _seen is not None else set()
    out = []
    for d in flow.reaching(at, name):
        if id(d) in seen:
            continue
        seen.add(id(d))
        if d.kind == "assign" and isinstance(d.value, ast.Name) and d.node is not None and d.value.id != name:
            # `b = a`: another name of the same array -- its definitions are a's
            out += chain_defs(flow, d.node, d.value.id, seen)
            continue
        out.append(d)
        if d.kind == "aug" and d.node is not None:
            out += chain_defs(flow, d.node, name, seen)
    return out


def _ess_of_subset(ctx, f, flow, at, e, weights_p) -> bool:
    """e is 1/sum(v**2) with v = weights[mask] normalised in the same iteration."""
    rx = ExprResolver(f.node).resolve(e, at)
    if not (isinstance(rx, ast.BinOp) and isinstance(rx.op, ast.Div) and const_value(rx.left) in (1, 1.0)):
        return False
    names = {n.id for n in ast.walk(rx.right) if isinstance(n, ast.Name)}
    for nm in names:
        defs = chain_defs(flow, at, nm)
        has_sel = any(d.kind == "assign" and isinstance(d.value, ast.Subscript) and isinstance(d.value.value, ast.Name) and d.value.value.id == weights_p for d in defs)
        has_norm = any(d.kind == "aug" and isinstance(d.value.op, ast.Div) and isinstance(d.value.value, ast.Call) and norm_text(d.value.value.args[0] if d.value.value.args else None) == nm for d in defs)
        if has_sel and has_norm:
            return True
    return False


def _ess_of_all(ctx, f, flow, at, e, weights_p) -> bool:
    rx = ExprResolver(f.node).resolve(e, at)
    return isinstance(rx, ast.BinOp) and isinstance(rx.op, ast.Div) and const_value(rx.left) in (1, 1.0) and weights_p in {n.id for n in ast.walk(rx.right) if isinstance(n, ast.Name)}


# ------------------------------------------------------------------ C20.d
def rule_d(ctx: Context, R: Reporter, funcs: List[FuncInfo]):
    n = 0
    for f in funcs:
        di = DegreeInterp(lambda c, f=f: ctx.res.external_name(f, c), weight_params=("weights", "w"), summaries=_internal_summaries(ctx, f))
        rets = di.run(f.node)
        n += 1
        for (r, t) in rets:
            comps = t.k if t.kind == "tuple" else [t]
            for i, c in enumerate(comps):
                if c.kind == "unknown":
                    if di.conflicts:
                        continue  # explained by the conflicts reported below
                    raise AnalysisError(f"C20.d: {f.short}: return component {i} not typable in the degree domain ({c.why})")
                ok = c.kind == "deg" and c.k == 0
                R.check("C20.d", f"{f.short}: returned value {i} is invariant under rescaling of the weights", ok, f, r,
                        msg=f"{f.short}: `{unparse(r)[:60]}` component {i} has type {c!r} under weights -> s*weights (it must have degree 0)", key=f"return-degree:{f.short}:{i}")
        for c in di.conflicts:
            R.check("C20.d", f"{f.short}: no mixed-degree arithmetic", False, f, c.node if c.node is not None else f.node,
                    msg=f"{f.short}: {c.why} at `{unparse(c.node)[:60] if c.node is not None else ''}`")
        seen = set()
        for (node, t) in di.hazards:
            k = norm_text(node)[:80]
            if k in seen:
                continue
            seen.add(k)
            R.check("C20.d", f"{f.short}: powers/products only of normalised weights", False, f, node,
                    msg=f"{f.short}: `{unparse(node)[:60]}` has degree {t.k} in the raw weight scale: squaring un-normalised weights overflows/underflows for scales beyond about 1e+-154 "
                        f"although the property covers a dynamic range up to 1e300; normalise first", key=f"hazard:{k}")
        if not di.conflicts and not di.hazards:
            R.check("C20.d", f"{f.short}: degree typing closed without conflicts or hazards", True, f, f.node, key=f"degree-clean:{f.short}")
    R.floor("C20.d", "weight utilities typed", n, 3)


def _internal_summaries(ctx, f):
    return {}


# ------------------------------------------------------------------ C20.e
def rule_e(ctx: Context, R: Reporter):
    from ..algebra import PowerSums, Undecided, Vec, ensure_sympy, run_function_powersums

    sp = ensure_sympy()
    n = 0
    for f in ess_fns(ctx):
        ps = PowerSums(lambda c, f=f: ctx.res.external_name(f, c))
        p = f.params[0]
        init = {p: ("log", p)} if "log" in p else {p: Vec(sp.Integer(1), 1)}
        if "log" in p:
            init = {p: ("log", p)}
        # a filter on the weight vector inside a routine that also counts it: the count N of "ESS / N", or of the [1, N]
        # range, is then the number of entries the filter kept, not the number of weights the caller passed
        counts = any((isinstance(x, ast.Call) and isinstance(x.func, ast.Name) and x.func.id == "len") or (isinstance(x, ast.Attribute) and x.attr in ("size", "shape"))
                     for r in walk_no_nested(f.node) if isinstance(r, ast.Return) and r.value is not None for x in ast.walk(r.value))
        filtered = False
        for st in walk_no_nested(f.node):
            if isinstance(st, ast.Assign) and len(st.targets) == 1 and isinstance(st.targets[0], ast.Name) and isinstance(st.value, ast.Subscript) and isinstance(st.value.value, ast.Name) \
                    and st.value.value.id == st.targets[0].id:
                sl = st.value.slice
                is_mask = isinstance(sl, ast.Compare) or (isinstance(sl, ast.UnaryOp) and isinstance(sl.op, ast.Invert)) or \
                    (isinstance(sl, ast.Call) and (ctx.res.external_name(f, sl) or "").split(".")[-1] in ("isfinite", "isnan", "isinf", "logical_not", "logical_and", "logical_or", "flatnonzero", "nonzero", "where"))
                if is_mask and counts:
                    filtered = True
                    R.check("C20.e", f"{f.short} counts the weights it was given", False, f, st,
                            msg=f"{f.short}: `{unparse(st)[:60]}` drops entries of the weight vector before the routine divides by / reports relative to its length: zero-weight "
                                f"(-inf log-weight) samples no longer count, so ESS/N is taken over the surviving entries and reaches 1 for a non-uniform vector", key=f"ess-count-filtered:{f.short}")
        try:
            ret, env = run_function_powersums(ps, f.node, init)
        except Undecided as ex:
            if filtered:
                n += 1
                continue
            raise AnalysisError(f"C20.e: {f.short} not decidable in the power-sum algebra: {ex}")
        n += 1
        S1, S2, N = ps.S(1), ps.S(2), ps.N
        want = S1 ** 2 / S2
        got = ret
        ok = sp.simplify(got - want) == 0
        frac = sp.simplify(got - want / N) == 0
        R.check("C20.e", f"{f.short} computes S1^2/S2 (or that divided by N) of its weight vector", ok or frac, f, f.node,
                msg=f"{f.short}: returns `{sp.simplify(got)}` in power sums of the weights; the effective sample size is S1^2/S2 "
                    f"(anything else is not in [1, N] / not scale invariant / not N for uniform weights)", witness={"computed": str(sp.simplify(got))}, key=f"ess-form:{f.short}")
        free_K = ps.K in sp.simplify(got).free_symbols
        R.check("C20.e", f"{f.short} does not depend on the common factor / max shift", not free_K, f, f.node,
                msg=f"{f.short}: result depends on the shift constant K", key=f"ess-shift-free:{f.short}")
    R.floor("C20.e", "ESS routines", n, 2)
    # the trimming routine's two ESS expressions
    f = trim_fn(ctx)
    ps = PowerSums(lambda c, f=f: ctx.res.external_name(f, c))
    flow = flow_of(f.node)
    wp = f.params[1]
    for nd in flow.cfg.stmt_nodes():
        if nd.kind == "stmt" and isinstance(nd.stmt, ast.Assign) and isinstance(nd.stmt.targets[0], ast.Name) and "ess" in nd.stmt.targets[0].id:
            v = nd.stmt.value
            names = {x.id for x in ast.walk(v) if isinstance(x, ast.Name)}
            vec_names = [x for x in names if any(d.kind in ("aug",) for d in flow.reaching(nd, x)) or x == wp]
            if not vec_names:
                continue
            env = {}
            for x in vec_names:
                # what the in-place division really divides by is evaluated, not assumed: `x /= np.max(x)` is not a
                # normalisation by the own sum
                env[x] = Vec(sp.Integer(1), 1)
                augs = [d for d in flow.reaching(nd, x) if d.kind == "aug" and isinstance(d.value.op, ast.Div)]
                if augs:
                    factors = set()
                    for d in augs:
                        rhs = ExprResolver(f.node).resolve(d.value.value, d.node, bound={x})
                        try:
                            factors.add(sp.simplify(ps.eval(rhs, {x: Vec(sp.Integer(1), 1)})))
                        except Undecided as ex:
                            raise AnalysisError(f"C20.e: divisor of `{unparse(d.stmt)}` not decidable: {ex}")
                    if len(factors) != 1:
                        raise AnalysisError(f"C20.e: `{x}` is divided by different quantities on different paths ({sorted(map(str, factors))})")
                    env[x] = Vec(1 / factors.pop(), 1)
            try:
                got = ps.eval(v, env)
            except Undecided as ex:
                raise AnalysisError(f"C20.e: `{unparse(nd.stmt)}` not decidable: {ex}")
            ok = sp.simplify(got - ps.S(1) ** 2 / ps.S(2)) == 0
            R.check("C20.e", f"`{nd.stmt.targets[0].id}` in the trimming routine is S1^2/S2 of a normalised vector", ok, f, nd.stmt,
                    msg=f"{f.short}: `{unparse(nd.stmt)}` evaluates to `{sp.simplify(got)}`, not the ESS of the (normalised) weights", key=f"trim-ess:{nd.stmt.targets[0].id}")


def rule_e_logdomain(ctx: Context, R: Reporter):
    """ESS routines that take log-weights exponentiate only max-shifted values
    (`logw - max(logw)`): with the sign flipped the algebra still gives S1^2/S2
    but the exponential overflows for large log-weights."""
    from ..shift import ShiftInterp, p_const, shift

    n = 0
    for f in ess_fns(ctx):
        p = f.params[0]
        if "log" not in p:
            continue
        n += 1
        si = ShiftInterp(lambda c, f=f: ctx.res.external_name(f, c), const_params={p: shift(p_const(1), ("S",))})
        si.strict_exp = True
        si.run(f.node)
        seen = set()
        for (node, t) in si.hazards:
            k = norm_text(node)[:60]
            if k in seen:
                continue
            seen.add(k)
            R.check("C20.e", f"{f.short}: exponentials are taken of max-shifted log-weights only", False, f, node,
                    msg=f"{f.short}: `{unparse(node)[:60]}` exponentiates a value of type {t!r} (not `logw - max(logw)`): ESS is still S1^2/S2 algebraically but the "
                        f"exponential over/underflows for log-weights of large magnitude (ESS no longer in [1, N])", key=f"ess-exp-hazard:{f.short}")
        if not si.hazards:
            R.check("C20.e", f"{f.short}: exponentials are taken of max-shifted log-weights only", True, f, f.node, key=f"ess-exp-hazard:{f.short}")
    R.analysed["C20.e:log_weight_ess_routines"] = n


# ------------------------------------------------------------------ C20.f
def rule_f(ctx: Context, R: Reporter, vf: FuncInfo):
    """Translation typing x -> x + t of the volume metric."""
    xp, wp = vf.params[0], vf.params[1]
    # types: 'S' shifts with t (degree 1 in t), 'I' invariant; product of two S factors is a conflict
    env: Dict[str, str] = {xp: "S", wp: "I"}
    norm: Dict[str, bool] = {}
    problems: List[Tuple[ast.AST, str]] = []
    n_typed = 0

    def ty(e) -> str:
        if isinstance(e, ast.Constant):
            return "I"
        if isinstance(e, ast.Name):
            return env.get(e.id, "I")
        if isinstance(e, ast.Attribute):
            if e.attr in ("shape", "size", "ndim", "newaxis"):
                return "I"
            if e.attr == "T":
                return ty(e.value)
            return "I" if dotted(e).startswith("np.") else ty(e.value)
        if isinstance(e, ast.Subscript):
            return ty(e.value)
        if isinstance(e, ast.UnaryOp):
            return ty(e.operand)
        if isinstance(e, ast.Tuple):
            ts = {ty(x) for x in e.elts}
            return "S" if "S" in ts else ("?" if "?" in ts else "I")
        if isinstance(e, ast.Compare) or isinstance(e, ast.BoolOp):
            return "I"
        if isinstance(e, ast.BinOp):
            l, r = ty(e.left), ty(e.right)
            if "?" in (l, r):
                return "?"
            if isinstance(e.op, (ast.Add, ast.Sub)):
                if l == "S" and r == "S":
                    if isinstance(e.op, ast.Sub):
                        return "I"
                    problems.append((e, "sum of two translation-dependent values (x + mean instead of x - mean)"))
                    return "?"
                if "S" in (l, r):
                    return "S"
                return "I"
            if isinstance(e.op, (ast.Mult, ast.MatMult, ast.Div, ast.Pow)):
                if l == "S" and r == "S":
                    problems.append((e, "product of two translation-dependent factors"))
                    return "?"
                if isinstance(e.op, ast.Pow) and l == "S":
                    problems.append((e, "power of a translation-dependent value"))
                    return "?"
                if "S" in (l, r):
                    # S * weights: still translation dependent (summing with normalised weights gives S)
                    return "S"
                return "I"
            return "?"
        if isinstance(e, ast.Call):
            name = ctx.res.external_name(vf, e) or ""
            ats = [ty(a) for a in e.args]
            if any(a.startswith("?") for a in ats) and name not in ("numpy.ones", "numpy.eye", "numpy.zeros", "builtins.len"):
                return "?"
            if name in ("numpy.asarray", "numpy.array", "numpy.sum", "numpy.mean", "numpy.average", "numpy.copy"):
                return ats[0] if ats else "I"
            if name in ("numpy.dot", "numpy.matmul", "numpy.outer", "numpy.einsum", "numpy.multiply"):
                s = [a for a in ats if a == "S"]
                if len(s) >= 2:
                    problems.append((e, "product of two translation-dependent factors"))
                    return "?"
                return "S" if s else "I"
            if name in ("numpy.cov",):
                return "I"
            if any(a == "S" for a in ats) and name not in ("numpy.linalg.matrix_rank",):
                if name in ("numpy.ones", "numpy.eye", "numpy.zeros", "builtins.len"):
                    return "I"
                return "S" if name in ("numpy.clip",) else "?"
            return "I"
        return "I"

    flow = flow_of(vf.node)
    for nd in sorted(flow.cfg.stmt_nodes(), key=lambda n: n.lineno):
        s = nd.stmt
        if nd.kind == "stmt" and isinstance(s, ast.Assign) and isinstance(s.targets[0], ast.Name):
            t = ty(s.value)
            env[s.targets[0].id] = "S" if t == "S" else ("I" if t == "I" else "?")
            n_typed += 1
        elif nd.kind == "stmt" and isinstance(s, ast.Assign) and isinstance(s.targets[0], ast.Tuple):
            t = ty(s.value)
            for e in s.targets[0].elts:
                if isinstance(e, ast.Name):
                    env[e.id] = "I" if isinstance(s.value, ast.Attribute) and s.value.attr == "shape" else t
    rets = [r for r in walk_no_nested(vf.node) if isinstance(r, ast.Return) and r.value is not None]
    for r in rets:
        t = ty(r.value)
        R.check("C20.f", "the volume metric does not depend on a translation of the samples", t == "I", vf, r,
                msg=f"{vf.short}: `{unparse(r)}` has translation type {t}", key=f"translation-return:{norm_text(r.value)[:30]}")
    seen = set()
    for (node, why) in problems:
        k = norm_text(node)[:80]
        if k in seen:
            continue
        seen.add(k)
        R.check("C20.f", "the covariance is formed from centred samples", False, vf, node,
                msg=f"{vf.short}: `{unparse(node)[:70]}`: {why}; a one-pass E[xx^T] - mm^T form is translation invariant only in exact arithmetic and cancels catastrophically "
                    f"when the cloud sits far from the origin", key=f"uncentred:{k}")
    if not problems:
        R.check("C20.f", "no product of two translation-dependent factors in the volume metric", True, vf, vf.node, key="centred-ok")
    R.analysed["C20.f:typed_statements"] = n_typed
    # weights are normalised before use
    normed = any(isinstance(n, ast.Assign) and isinstance(n.value, ast.BinOp) and isinstance(n.value.op, ast.Div) and isinstance(n.value.right, ast.Call)
                 and (ctx.res.external_name(vf, n.value.right) or "") == "numpy.sum" and norm_text(n.value.left) == wp for n in walk_no_nested(vf.node))
    if not normed:
        from ..util import own_sum_normalisation
        vflow = flow_of(vf.node)
        for nd_ in vflow.cfg.stmt_nodes():
            if nd_.kind == "stmt" and isinstance(nd_.stmt, (ast.Assign, ast.AugAssign)):
                tg_ = nd_.stmt.targets[0] if isinstance(nd_.stmt, ast.Assign) else nd_.stmt.target
                if isinstance(tg_, ast.Name) and tg_.id == wp and own_sum_normalisation(ctx, vf, nd_.stmt, nd_, vec_name=wp)[0] is True:
                    normed = True
    R.check("C20.f", "the volume metric normalises its weights before use", normed, vf, vf.node, msg=f"{vf.short}: `{wp}` is never normalised", key="vv-normalises")


def rule_cov(ctx: Context, R: Reporter, funcs: List[FuncInfo]):
    """Library covariance estimators with reliability weights: np.cov(aweights=w) divides by 1 - sum(w^2)
    (for normalised w) unless bias=True / ddof=0 -- zero when one sample carries all the weight."""
    for f in funcs:
        for c in calls_in(f.node):
            if (ctx.res.external_name(f, c) or "") == "numpy.cov" and any(k.arg == "aweights" for k in c.keywords):
                okb = any(k.arg == "bias" and const_value(k.value) is True for k in c.keywords) or any(k.arg == "ddof" and const_value(k.value) == 0 for k in c.keywords)
                R.check("C20.f", "weighted covariance uses the plain weighted second moment", okb, f, c,
                        msg=f"{f.short}: `{unparse(c)[:70]}` applies np.cov's reliability-weight correction 1/(1 - sum(w^2)): it is singular when one sample carries (numerically) all of "
                            f"the weight, so the metric becomes nan or the call raises instead of returning a non-negative value", key=f"cov-aweights:{f.short}")


COND_BUDGET = 1e-12  # affine maps of condition number up to 1e6 (property text) give covariances of condition number up to 1e12


def _spectral_floors(ctx: Context, R: Reporter, vf: FuncInfo):
    """A floor on the spectrum of the covariance (np.maximum / np.clip of eigenvalues against a multiple of the
    largest one) silently regularises every covariance whose condition number exceeds 1/factor; the property
    quantifies over affine maps of condition number up to 1e6, i.e. covariance condition numbers up to 1e12."""
    from .c06 import _tolerance_value

    flow = flow_of(vf.node)
    spectral = set()
    for nd in flow.cfg.stmt_nodes():
        for d in flow.defs_at.get(nd.id, []):
            v = d.value
            if isinstance(v, ast.Call) and (ctx.res.external_name(vf, v) or "") in ("numpy.linalg.eigh", "numpy.linalg.eigvalsh", "numpy.linalg.svd", "scipy.linalg.eigh", "numpy.linalg.eigvals"):
                spectral.add(d.name)
    if not spectral:
        return
    for c in calls_in(vf.node):
        nm = ctx.res.external_name(vf, c) or ""
        if nm not in ("numpy.maximum", "numpy.clip", "numpy.fmax") or len(c.args) < 2:
            continue
        a0 = c.args[0]
        if not (isinstance(a0, ast.Name) and a0.id in spectral):
            continue
        fl = c.args[1]
        factor = None
        if isinstance(fl, ast.BinOp) and isinstance(fl.op, ast.Mult):
            for (k, o) in ((fl.left, fl.right), (fl.right, fl.left)):
                if any(isinstance(x, ast.Name) and x.id in spectral for x in ast.walk(o)):
                    factor = _tolerance_value(ctx, vf, k)
        if factor is None:
            raise AnalysisError(f"C20.g: spectral floor `{unparse(c)[:60]}` has a factor the rule cannot evaluate")
        R.check("C20.g", "a relative floor on the covariance spectrum stays below the conditioning the property allows", factor <= COND_BUDGET, vf, c,
                msg=f"{vf.short}: `{unparse(c)[:70]}` floors the eigenvalues at {factor:.3g} x the largest one: every covariance of condition number above {1 / factor:.3g} is silently "
                    f"regularised, so the metric changes under invertible affine maps of condition number above {(1 / factor) ** 0.5:.3g} (the property allows 1e6)",
                key="spectral-floor")


def rule_g(ctx: Context, R: Reporter, vf: FuncInfo):
    """C20.g  scale typing of the volume metric under x -> s * x (a necessary part
    of invariance under invertible linear maps): the result has degree 0 and no
    absolute constant meets a quantity that scales with the samples -- in
    particular the rank test must use a relative tolerance."""
    def rank(di, e, args):
        a = args[0] if args else INV
        tol = next((k for k in e.keywords if k.arg in ("tol", "rtol")), None)
        if tol is not None and tol.arg == "tol" and a.kind == "deg" and a.k != 0 and not (isinstance(tol.value, ast.Constant) and tol.value.value is None):
            tt = di.eval(tol.value, {})
            if tt.kind == "deg" and tt.k != a.k:
                return di._conflict(f"matrix_rank of a degree-{a.k} matrix with an absolute tolerance `{unparse(tol.value)}`: whether the covariance counts as singular "
                                    f"depends on the units of the samples", e)
        return INV

    def inv_(di, e, args):
        a = args[0] if args else INV
        return deg(-a.k) if a.kind == "deg" else a

    def clip(di, e, args):
        a = args[0] if args else INV
        if a.kind == "deg" and a.k != 0:
            return di._conflict(f"clip of a degree-{a.k} quantity to absolute bounds", e)
        return a

    _spectral_floors(ctx, R, vf)
    from ..util import errstate_underflow_sites

    for c in errstate_underflow_sites(vf.node):
        R.check("C20.g", "floating-point underflow is not turned into an exception in the volume metric", False, vf, c,
                msg=f"{vf.short}: `{unparse(c)[:50]}` raises on underflow: products of tiny weights and small displacements underflow harmlessly, so the metric depends on the "
                    f"absolute scale of the samples (an affine map with a small overall scale flips it to the failure value)", key="errstate-underflow")
    extra = {"numpy.linalg.matrix_rank": rank, "numpy.linalg.inv": inv_, "numpy.linalg.pinv": inv_, "numpy.clip": clip,
             "numpy.trace": lambda di, e, a: a[0] if a else INV, "numpy.eye": lambda di, e, a: INV}
    di = DegreeInterp(lambda c: ctx.res.external_name(vf, c), weight_params=(vf.params[0],), extra_degrees=extra)
    rets = di.run(vf.node)
    n = 0
    for (r, t) in rets:
        n += 1
        if t.kind == "unknown":
            if di.conflicts:
                continue
            raise AnalysisError(f"C20.g: return `{unparse(r)[:50]}` not typable under rescaling of the samples ({t.why})")
        ok = t.kind == "deg" and t.k == 0
        R.check("C20.g", "the volume metric has degree 0 under rescaling of the samples", ok, vf, r,
                msg=f"{vf.short}: `{unparse(r)[:50]}` has type {t!r} under x -> s*x; invariance under linear maps requires degree 0", key=f"volume-scale-degree:{norm_text(r.value)[:30] if r.value is not None else ''}")
    seen = set()
    for c in di.conflicts:
        k = norm_text(c.node)[:80] if c.node is not None else c.why
        if k in seen:
            continue
        seen.add(k)
        R.check("C20.g", "no absolute constant meets a quantity that scales with the samples", False, vf, c.node if c.node is not None else vf.node,
                msg=f"{vf.short}: {c.why}", key=f"volume-scale-conflict:{k}")
    if not di.conflicts:
        R.check("C20.g", "scale typing of the volume metric closed without conflicts", True, vf, vf.node, key="volume-scale-clean")
    R.floor("C20.g", "typed returns of the volume metric", n, 2)


def rule_i(ctx: Context, R: Reporter, vf: FuncInfo):
    """C20.i  degenerate clouds reach the documented fallback.  The volume metric handles a rank-deficient covariance
    (all the weight on one particle or on duplicates, a coordinate pinned to a constant) by a ridge and, failing that,
    by the except branch of the guarded inversion.  That only works if nothing *before* the guarded inversion is
    undefined exactly when the covariance is singular: a division (or reciprocal / negative power) whose divisor is
    computed from the covariance or from a per-dimension spread of the samples -- its diagonal, a standard deviation,
    the trace, the determinant, eigenvalues -- is zero in precisely those cases; 0/0 puts NaN into the matrix and
    `matrix_rank` / the decomposition then raises outside the try.  A divisor protected by an added positive constant or a
    positive floor is fine, and so is anything inside the guarded block."""
    from ..model import ufunc_as_operator

    flow = flow_of(vf.node)
    cfg = flow.cfg
    ext = lambda c: ctx.res.external_name(vf, c) or ""  # noqa: E731
    LIN = ("numpy.linalg.matrix_rank", "numpy.linalg.inv", "numpy.linalg.pinv", "numpy.linalg.solve", "numpy.linalg.cholesky", "numpy.linalg.eigh", "numpy.linalg.eigvalsh",
           "numpy.linalg.det", "numpy.linalg.slogdet", "scipy.linalg.solve", "scipy.linalg.cho_solve", "scipy.linalg.eigh")
    cov_names = {a.id for c in calls_in(vf.node) if ext(c) in LIN for a in c.args[:1] if isinstance(a, ast.Name)}
    if not cov_names:
        raise AnalysisError("C20.i: the matrix handed to the rank test / inversion is not a plain name")
    SPREAD = ("numpy.std", "numpy.var", "numpy.nanstd", "numpy.nanvar", "numpy.ptp", "numpy.cov")

    def is_spread_call(c) -> bool:
        return isinstance(c, ast.Call) and (ext(c) in SPREAD or (isinstance(c.func, ast.Attribute) and c.func.attr in ("std", "var", "ptp") and not ext(c).startswith("numpy.")))

    # names computed from the covariance (or from a spread of the samples), transitively
    tainted = set(cov_names)
    for _ in range(8):
        more = set()
        for ds_ in flow.defs_at.values():
            for d in ds_:
                if d.value is None or d.name in tainted:
                    continue
                names = {x.id for x in ast.walk(d.value) if isinstance(x, ast.Name)}
                if (names & tainted) or any(is_spread_call(c) for c in ast.walk(d.value)):
                    more.add(d.name)
        if not more - tainted:
            break
        tainted |= more
    try_bodies = [t for t in ast.walk(vf.node) if isinstance(t, ast.Try) and any(h.type is None or "LinAlgError" in unparse(h.type) or "Exception" in unparse(h.type) for h in t.handlers)]
    in_try = {id(x) for t in try_bodies for b in t.body for x in ast.walk(b)}

    def positive_const(e) -> bool:
        v = const_value(e)
        return isinstance(v, (int, float)) and not isinstance(v, bool) and v > 0

    def protected(div) -> bool:
        """divisor + positive constant / max(divisor, positive) / clip(divisor, positive, ..)"""
        if isinstance(div, ast.BinOp) and isinstance(div.op, ast.Add) and (positive_const(div.left) or positive_const(div.right)):
            return True
        if isinstance(div, ast.Call) and ext(div) in ("numpy.maximum", "numpy.fmax", "builtins.max") and any(positive_const(a) for a in div.args):
            return True
        if isinstance(div, ast.Call) and ext(div) == "numpy.clip" and len(div.args) >= 2 and positive_const(div.args[1]):
            return True
        if isinstance(div, ast.Call) and ext(div) in ("numpy.sqrt", "numpy.abs") and div.args:
            return protected(div.args[0])
        return False

    def from_cov(e) -> bool:
        for x in ast.walk(e):
            if isinstance(x, ast.Name) and x.id in tainted:
                return True
            if is_spread_call(x):
                return True
        return False

    n_sites = 0
    hazards = []
    for nd in cfg.stmt_nodes():
        if nd.ast is None or nd.kind not in ("stmt", "test"):
            continue
        for x in ast.walk(nd.ast):
            if id(x) in in_try:
                continue
            div = None
            if isinstance(x, ast.Call):
                op_ = ufunc_as_operator(ext(x), x)
                if isinstance(op_, ast.BinOp) and isinstance(op_.op, (ast.Div, ast.FloorDiv, ast.Mod)):
                    div = op_.right
                elif ext(x) == "numpy.reciprocal" and x.args:
                    div = x.args[0]
            elif isinstance(x, ast.BinOp) and isinstance(x.op, (ast.Div, ast.FloorDiv, ast.Mod)):
                div = x.right
            elif isinstance(x, ast.BinOp) and isinstance(x.op, ast.Pow) and isinstance(const_value(x.right), (int, float)) and const_value(x.right) < 0:
                div = x.left
            elif isinstance(x, ast.AugAssign) and isinstance(x.op, (ast.Div, ast.FloorDiv, ast.Mod)):
                div = x.value
            if div is None:
                continue
            n_sites += 1
            if from_cov(div) and not protected(div):
                # the divisor may have been floored in an earlier statement (`ev = np.maximum(ev, floor)`): look at what the
                # name is bound to.  A constant positive floor protects; a floor that is itself computed (a relative tolerance
                # `c * ev[-1]`) protects when the facts holding here say that quantity is positive; otherwise this site is
                # not decided (an honest "cannot tell", not a violation)
                rdiv = ExprResolver(vf.node).resolve(div, nd)
                if protected(rdiv):
                    continue
                floors = [c for c in ast.walk(rdiv) if isinstance(c, ast.Call) and ext(c) in ("numpy.maximum", "numpy.fmax", "numpy.clip") and len(c.args) >= 2]
                if floors:
                    from ..util import conds_holding_at as _cha_i

                    facts_txt = {(norm_text(ExprResolver(vf.node).resolve(a_, nd)), p_) for (t_, pol_) in _cha_i(cfg, nd) for (a_, p_) in split_cond(t_, pol_)}
                    ok_floor = False
                    for fl_ in floors:
                        f_ = fl_.args[1]
                        # c * Q with c a positive constant and a fact `Q > 0` on every path here
                        if isinstance(f_, ast.BinOp) and isinstance(f_.op, ast.Mult):
                            for c_, q_ in ((f_.left, f_.right), (f_.right, f_.left)):
                                cval = const_value(c_)
                                cname_pos = isinstance(c_, ast.Name) and c_.id.isupper()  # a module constant such as SQRTEPS: positivity is checked below
                                if (isinstance(cval, (int, float)) and cval > 0) or cname_pos:
                                    qt = norm_text(q_)
                                    if (f"{qt}>0", True) in facts_txt or (f"{qt}>0.0", True) in facts_txt or (f"{qt}<=0", False) in facts_txt or (f"{qt}<=0.0", False) in facts_txt:
                                        ok_floor = True
                    if ok_floor:
                        continue
                    raise AnalysisError(f"C20.i: `{unparse(x)[:60]}` divides by a quantity floored at `{unparse(floors[0].args[1])[:40]}`, whose positivity cannot be established here")
                hazards.append((nd, x, div))
    R.analysed["C20.i:division_sites_outside_the_guarded_block"] = n_sites
    seen = set()
    for (nd, x, div) in hazards:
        k = norm_text(div)[:60]
        if k in seen:
            continue
        seen.add(k)
        R.check("C20.i", "nothing before the guarded inversion divides by a quantity that vanishes with the covariance", False, vf, nd.ast,
                msg=f"{vf.short}: `{unparse(x)[:70]}` divides by `{unparse(div)[:40]}`, which is computed from the covariance / a per-dimension spread of the samples and is exactly zero for the "
                    f"rank-deficient clouds this function must survive (all weight on one particle, duplicates, a constant coordinate): 0/0 puts NaN into the matrix and the rank test or the "
                    f"decomposition raises outside the try instead of taking the ridge / fallback", key=f"degenerate-division:{k}")
    if not hazards:
        R.check("C20.i", "nothing before the guarded inversion divides by a quantity that vanishes with the covariance", True, vf, vf.node, key="degenerate-division")


def rule_h(ctx: Context, R: Reporter, vf: FuncInfo):
    """C20.h  per-coordinate typing of the volume metric (x_i -> d_i x_i, a diagonal invertible linear map) for samples
    whose covariance has full rank -- the case the property quantifies over; the branch guarded by the
    rank-deficiency test is the documented degenerate fallback and is not taken under this assumption.  The
    Mahalanobis distances must come out unit-free and nothing on the way may add entries that carry different
    units (a trace ridge on a full-rank covariance, a mean over coordinates, a reduction over the wrong axis)."""
    from ..coord import INVC, CoordInterp, co

    ci = CoordInterp(lambda c: ctx.res.external_name(vf, c))

    def assume(test):
        # `matrix_rank(cov) < n_dim` is false for the samples the property is about
        for x in ast.walk(test):
            if isinstance(x, ast.Call) and (ctx.res.external_name(vf, x) or "") == "numpy.linalg.matrix_rank":
                if isinstance(test, ast.Compare) and len(test.ops) == 1 and isinstance(test.ops[0], (ast.Lt, ast.LtE)) and test.left is x:
                    return False if isinstance(test.ops[0], ast.Lt) else None
                return None
        return None

    ci.assume = assume
    rets = ci.run(vf.node, {vf.params[0]: co(None, 1)})
    n = 0
    for (r, t) in rets:
        n += 1
        if t.kind == "unknown" and not ci.conflicts:
            raise AnalysisError(f"C20.h: return `{unparse(r)[:50]}` of the volume metric not typable per coordinate ({t.why})")
        ok = t.kind == "arr" and not t.scaled
        if t.kind in ("conflict", "unknown"):
            continue
        R.check("C20.h", "the volume metric is unit-free under per-coordinate scaling of the samples", ok, vf, r,
                msg=f"{vf.short}: `{unparse(r)[:50]}` has per-coordinate type {t!r}; invariance under diagonal linear maps requires a unit-free value", key=f"volume-coord-type:{norm_text(r.value)[:30] if r.value is not None else ''}")
    seen = set()
    for c in ci.conflicts:
        k = norm_text(c.node)[:80] if c.node is not None else c.why
        if k in seen:
            continue
        seen.add(k)
        R.check("C20.h", "the volume metric never mixes entries that carry the units of different coordinates (full-rank samples)", False, vf, c.node if c.node is not None else vf.node,
                msg=f"{vf.short}: {c.why} at `{unparse(c.node)[:70] if c.node is not None else ''}` on the full-rank path: the metric changes under a per-coordinate rescaling of the samples, "
                    f"a special case of the invertible affine maps it must be invariant under", key=f"volume-coord-conflict:{k}")
    if not ci.conflicts:
        R.check("C20.h", "per-coordinate typing of the volume metric closed without conflicts on the full-rank path", True, vf, vf.node, key="volume-coord-clean")
    R.floor("C20.h", "typed returns of the volume metric (per coordinate)", n, 2)


def run(ctx: Context, R: Reporter):
    tf = trim_fn(ctx)
    vf = volume_fn(ctx)
    R.guard(rule_abc, ctx, R, tf)
    ef = [f for f in ess_fns(ctx) if "log" not in f.params[0]]
    R.guard(rule_d, ctx, R, [tf, vf] + ef)
    R.guard(rule_e, ctx, R)
    R.guard(rule_e_logdomain, ctx, R)
    R.guard(rule_cov, ctx, R, [tf, vf] + ef)
    R.guard(rule_f, ctx, R, vf)
    R.guard(rule_g, ctx, R, vf)
    R.guard(rule_h, ctx, R, vf)
    R.guard(rule_i, ctx, R, vf)


def variants():
    from ..variants import Variant, normalisation_twins, alpha_rename, delete_stmt, insert_after, insert_before, replace_expr, replace_stmt

    tl = "tempest/tools.py"
    return [
        Variant("e-ess-drops-nonfinite-before-counting", "bad", insert_before("tempest/tools.py", "compute_ess", "logw_max = np.max(logw)", "logw = logw[np.isfinite(logw)]"), ["C20.e"], quick=True),

        Variant("h-ridge-on-full-rank", "bad", replace_expr(tl, "volume_variation", "np.linalg.matrix_rank(cov) < n_dim", "not np.linalg.matrix_rank(cov) < n_dim"), ["C20.h"], quick=True),
        Variant("h-mean-over-coordinates", "bad", replace_expr(tl, "volume_variation", "np.sum(x * w[:, np.newaxis], axis=0)", "np.sum(x * w[:, np.newaxis], axis=1)"), ["C20.h"]),
        Variant("h-unconditional-trace-ridge", "bad", replace_stmt(tl, "volume_variation", "cov = np.dot(xc.T, xc * w[:, np.newaxis])", "cov = np.dot(xc.T, xc * w[:, np.newaxis])\ncov = cov + 1e-9 * np.trace(cov) * np.eye(n_dim)"), ["C20.h"]),
        Variant("g-rank-absolute-tol", "bad", replace_expr(tl, "volume_variation", "np.linalg.matrix_rank(cov)", "np.linalg.matrix_rank(cov, tol=1e-8)"), ["C20.g"], quick=True),
        Variant("g-rank-default-tol-benign", "benign", replace_expr(tl, "volume_variation", "np.linalg.matrix_rank(cov)", "np.linalg.matrix_rank(cov, tol=None)")),
        Variant("b-argsort-rank-trim", "bad", replace_stmt(tl, "trim_weights", "mask = weights >= threshold", "mask = np.sort(np.argsort(weights)[int(np.ceil(p / 100 * (len(weights) - 1))):])"), ["C20.b"]),
        Variant("a-samples-other-mask", "bad", replace_expr(tl, "trim_weights", "samples[mask]", "samples[weights > threshold]"), ["C20.a"], quick=True),
        Variant("b-strict-mask", "bad", replace_expr(tl, "trim_weights", "weights >= threshold", "weights > threshold"), ["C20.b"], quick=True),
        Variant("c-loop-stops-early", "bad", replace_expr(tl, "trim_weights", "True", "i > 0"), ["C20.c"], quick=True),
        Variant("c-ratio-flipped", "bad", replace_expr(tl, "trim_weights", "ess_trimmed / ess_total >= ess", "ess_trimmed / ess_total <= ess"), ["C20.c"]),
        Variant("c-unnormalised-subset", "bad", delete_stmt(tl, "trim_weights", "weights_trimmed /= np.sum(weights_trimmed)"), ["C20.c", "C20.d", "C20.e"]),
        Variant("d-ess-raw-squares", "bad", replace_stmt(tl, "effective_sample_size", "weights = weights / np.sum(weights)", "return np.sum(weights) ** 2 / np.sum(weights ** 2)"), ["C20.d"], quick=True),
        Variant("d-ess-no-normalise", "bad", delete_stmt(tl, "effective_sample_size", "weights = weights / np.sum(weights)"), ["C20.d", "C20.e"]),
        Variant("z-histogram-through-repeating-bins", "bad", insert_before(tl, "trim_weights", "ess_total = 1.0 / np.sum(weights ** 2.0)", "occupancy = np.zeros(bins)\noccupancy[np.searchsorted(np.linspace(0, 1, bins), weights) - 1] += 1"), ["C20.z"], quick=True),
        Variant("z-benign-histogram-with-add-at", "benign", insert_before(tl, "trim_weights", "ess_total = 1.0 / np.sum(weights ** 2.0)", "occupancy = np.zeros(bins)\nnp.add.at(occupancy, np.searchsorted(np.linspace(0, 1, bins), weights) - 1, 1)")),
        Variant("c-requested-fraction-capped", "bad", insert_before(tl, "trim_weights", "ess_total = 1.0 / np.sum(weights ** 2.0)", "ess = min(ess, 0.99)"), ["C20.c"], quick=True),
        Variant("e-max-shift-with-initial-zero", "bad", replace_expr(tl, "compute_ess", "np.max(logw)", "np.max(logw, initial=0.0)"), ["C20.e"], quick=True),
        Variant("e-benign-max-shift-with-initial-neg-inf", "benign", replace_expr(tl, "compute_ess", "np.max(logw)", "np.max(logw, initial=-np.inf)")),
        Variant("e-ess-wrong-power", "bad", replace_expr(tl, "effective_sample_size", "weights ** 2.0", "weights ** 3.0"), ["C20.e"]),
        Variant("f-one-pass-cov", "bad", replace_stmt(tl, "volume_variation", "cov = np.dot(xc.T, xc * w[:, np.newaxis])", "cov = np.dot(x.T, x * w[:, np.newaxis]) - np.outer(weighted_mean, weighted_mean)"), ["C20.f"], quick=True),
        Variant("f-vv-unnormalised", "bad", delete_stmt(tl, "volume_variation", "w = w / np.sum(w)"), ["C20.f", "C20.d"]),
        *normalisation_twins("a-trim", tl, "trim_weights", "weights /= np.sum(weights)", "weights", True, ["C20.a", "C20.b", "C20.c", "C20.d", "C20.e"]),
        *normalisation_twins("d-ess", tl, "effective_sample_size", "weights = weights / np.sum(weights)", "weights", False, ["C20.d", "C20.e"]),
        *normalisation_twins("f-vv", tl, "volume_variation", "w = w / np.sum(w)", "w", False, ["C20.f", "C20.d"]),
        # C20.i: nothing before the guarded inversion may divide by something that vanishes with the covariance
        Variant("i-standardise-by-diagonal", "bad", insert_after(tl, "volume_variation", "cov = np.dot(xc.T, xc * w[:, np.newaxis])", "scale = np.sqrt(np.diag(cov))\nxc = xc / scale\ncov = cov / np.outer(scale, scale)"), ["C20.i"], quick=True),
        Variant("i-normalise-by-trace", "bad", insert_after(tl, "volume_variation", "cov = np.dot(xc.T, xc * w[:, np.newaxis])", "cov = cov / np.trace(cov)"), ["C20.i"], quick=True),
        Variant("i-standardise-by-sample-std", "bad", insert_after(tl, "volume_variation", "cov = np.dot(xc.T, xc * w[:, np.newaxis])", "xc = xc / np.std(x, axis=0)"), ["C20.i"]),
        Variant("i-inplace-by-sqrt-diagonal", "bad", insert_after(tl, "volume_variation", "cov = np.dot(xc.T, xc * w[:, np.newaxis])", "cov /= np.sqrt(np.diag(cov))[:, None]"), ["C20.i"]),
        Variant("i-ufunc-divide-by-determinant", "bad", insert_after(tl, "volume_variation", "cov = np.dot(xc.T, xc * w[:, np.newaxis])", "cov = np.divide(cov, np.linalg.det(cov))"), ["C20.i"]),
        Variant("i-negative-power-of-diagonal", "bad", insert_after(tl, "volume_variation", "cov = np.dot(xc.T, xc * w[:, np.newaxis])", "cov = cov * np.diag(cov) ** -1"), ["C20.i"]),
        Variant("i-benign-division-by-dimension", "benign", insert_after(tl, "volume_variation", "cov = np.dot(xc.T, xc * w[:, np.newaxis])", "n_eff = float(n_samples) / n_dim")),
        Variant("i-benign-division-inside-guarded-block", "benign", insert_after(tl, "volume_variation", "cov_inv = np.linalg.inv(cov)", "_inv_det = 1.0 / np.linalg.det(cov)"), quick=True),
        Variant("benign-rename-mask", "benign", alpha_rename(tl, "trim_weights", "mask", "keep"), quick=True),
        Variant("benign-ess-product", "benign", replace_expr(tl, "effective_sample_size", "weights ** 2.0", "weights * weights")),
    ]
