"""C15  Weighted mixture and hierarchical clustering models satisfy their invariants.

Structural clauses only:
  C15.a  cap: the cluster list grows by at most one per iteration of a loop whose
         counter is incremented unconditionally and bounded by max_iterations,
         which is the constructor argument itself (no defaulting that rewrites 0)
  C15.b  minimum size: the accepted split is dominated by
         len(child) >= min_points for *both* children
  C15.c  partition / label range: children are the complementary selections
         (== 0, == 1) of one index list by a 2-component model; final labels by
         enumerate of the cluster list; n_clusters_ = its length; predict is an
         arg-reduction over an axis of that length on both paths
  C15.d  normalised mixture weights in the M-step
  C15.l  a row of the E-step's responsibilities is never 0/0 (guarded divisor, or
         exponentials shifted by the row maximum)
  C15.e  weight-scale typing: with sample_weight -> s * sample_weight every
         quantity of the mixture fit has degree 0 (weights are normalised before
         they meet an absolute constant)
"""
from __future__ import annotations

import ast
from typing import Dict, List, Optional, Tuple

from ..cfg import cfg_of
from ..dataflow import Resolver as ExprResolver
from ..dataflow import flow_of
from ..degree import INV, DegreeInterp, T, deg
from ..engine import Context, Reporter
from ..model import AnalysisError, ClassInfo, FuncInfo, dotted, norm_text, walk_no_nested
from ..util import call_arg, calls_in, calls_in_node, conds_holding_at, const_value, split_cond, unparse

PROP = "C15"
EXPLANATION = (
    "Decides the structural clauses of the clustering invariants: the hierarchical fit's split loop is bounded by the "
    "constructor's max_iterations (unaltered) with an unconditional counter and at most one pop + one 2-tuple extend per "
    "iteration (cap); an accepted split is dominated by the minimum-size test of both children; children are the "
    "complementary label selections of one index list by a two-component model, labels are assigned by enumerating the "
    "cluster list and predict reduces over an axis of that length (labels in [0, K)); the M-step normalises the mixture "
    "weights; and, by homogeneity-degree typing under rescaling of the sample weights, every quantity of the weighted EM "
    "has degree 0 (weight normalisation precedes every absolute regulariser). PSD-ness of covariances, means inside the "
    "bounding box and the weight-replication equivalence are numerical facts over all data sets and are not decided."
    " Also: nothing but its initialisation and increment writes the split loop's counter, and (l) a row of the E-step's responsibilities is never 0/0 (guarded divisor or row-maximum shift)."
)
ASSUMPTIONS = ["numpy argmax/argmin over axis 1 return indices in [0, shape[1])", "scipy multivariate_normal pdf/logpdf do not depend on the sample weights"]


def hier_class(ctx: Context) -> ClassInfo:
    from .c14 import shared_clusterer

    return shared_clusterer(ctx)[0]


def gmm_class(ctx: Context, hc: ClassInfo) -> ClassInfo:
    fit = hc.methods["fit"]
    for (call, tg) in ctx.cg.sites.get(fit.qualname, []):
        for t in tg:
            if isinstance(t, ClassInfo) and "_m_step" in t.methods:
                return t
    raise AnalysisError("C15: mixture class used by the hierarchical fit not found")


def rule_a(ctx: Context, R: Reporter, hc: ClassInfo):
    fit = hc.methods["fit"]
    flow = flow_of(fit.node)
    cfg = flow.cfg
    loops = [n for n in cfg.stmt_nodes() if n.kind == "test" and isinstance(n.stmt, ast.While)]
    R.floor("C15.a", "split loops", len(loops), 1)
    lp = loops[0]
    t = lp.ast
    ok_test = isinstance(t, ast.Compare) and len(t.ops) == 1 and isinstance(t.ops[0], ast.Lt) and isinstance(t.left, ast.Name) and isinstance(t.comparators[0], ast.Attribute) and t.comparators[0].attr == "max_iterations"
    R.check("C15.a", "split loop runs while counter < self.max_iterations", ok_test, fit, lp.stmt, msg=f"{fit.short}: loop guard `{unparse(t)}`", key="loop-guard")
    if not ok_test:
        return
    counter = t.left.id
    body = cfg.loop_body(lp.id)
    incs = [n for n in cfg.stmt_nodes() if n.id in body and n.kind == "stmt" and isinstance(n.stmt, ast.AugAssign) and isinstance(n.stmt.target, ast.Name) and n.stmt.target.id == counter]
    ok_inc = len(incs) == 1 and isinstance(incs[0].stmt.op, ast.Add) and const_value(incs[0].stmt.value) == 1 and incs[0].loops == (lp.id,) and \
        all(cfg.dominates(incs[0].id, n) for n in body if n not in (lp.id, incs[0].id))
    R.check("C15.a", "the counter is incremented by one, unconditionally, first thing in every iteration", ok_inc, fit, incs[0].stmt if incs else lp.stmt,
            msg=f"{fit.short}: counter `{counter}` updates: {[unparse(i.stmt) for i in incs]}", key="counter-increment")
    other = [d for ds in flow.defs_at.values() for d in ds if d.name == counter and d.kind not in ("assign", "aug", "param")]
    seen_other = set()
    for d in other:
        if id(d.stmt) in seen_other:
            continue
        seen_other.add(id(d.stmt))
        R.check("C15.a", "nothing but its own initialisation and increment writes the loop counter", False, fit, d.stmt if d.stmt is not None else lp.stmt,
                msg=f"{fit.short}: `{norm_text(d.stmt)[:60] if d.stmt is not None else counter}` re-binds the split loop's counter `{counter}` ({d.kind}): an inner loop that re-uses the name resets "
                    f"the count, so the cap max_iterations on the number of splits is never reached", key="counter-clobbered")
    init = [d for ds in flow.defs_at.values() for d in ds if d.name == counter and d.kind == "assign"]
    R.check("C15.a", "the counter starts at 0", len(init) == 1 and const_value(init[0].value) == 0 and not init[0].node.loops, fit, init[0].stmt if init else lp.stmt,
            msg=f"{fit.short}: `{counter}` initialised by {[unparse(d.stmt) for d in init]}", key="counter-init")
    # cluster list growth
    # the list variable: the one enumerated by inner for loops and extended
    ext = [(n, c) for n in cfg.stmt_nodes() if n.id in body for c in calls_in_node(n) if isinstance(c.func, ast.Attribute) and c.func.attr in ("extend", "append", "insert", "pop", "remove", "clear") and isinstance(c.func.value, ast.Name)]
    lists = {c.func.value.id for (n, c) in ext if c.func.attr == "extend"}
    R.floor("C15.a", "cluster list extended in the loop", len(lists), 1)
    for lst in lists:
        ops = [(n, c) for (n, c) in ext if c.func.value.id == lst]
        pops = [(n, c) for (n, c) in ops if c.func.attr in ("pop", "remove")]
        exts = [(n, c) for (n, c) in ops if c.func.attr == "extend"]
        others = [(n, c) for (n, c) in ops if c.func.attr in ("append", "insert")]
        ok = len(pops) == 1 and len(exts) == 1 and not others and pops[0][0].loops == (lp.id,) and exts[0][0].loops == (lp.id,)
        two = False
        if exts:
            a = exts[0][1].args[0]
            rx = ExprResolver(fit.node).resolve(a, exts[0][0])
            if isinstance(a, ast.Name):
                ds = [d for dl in flow.defs_at.values() for d in dl if d.name == a.id and d.kind == "assign"]
                two = all((isinstance(d.value, ast.Tuple) and len(d.value.elts) == 2) or (isinstance(d.value, ast.Constant) and d.value.value is None) for d in ds) and any(isinstance(d.value, ast.Tuple) for d in ds)
            elif isinstance(a, (ast.Tuple, ast.List)):
                two = len(a.elts) == 2
        R.check("C15.a", "each iteration removes one cluster and adds exactly two (net growth of one)", ok and two, fit, exts[0][1] if exts else lp.stmt,
                msg=f"{fit.short}: list `{lst}` is modified by {[unparse(c)[:40] for (n, c) in ops]} per iteration; with more than one net addition the cap max_iterations + 1 does not hold",
                key=f"net-growth:{lst}")
        # n_clusters_ = len(list)
        ncl = [(m, st, v) for (m, st, v) in ctx.res.attr_assignments(hc, "n_clusters_") if m is fit]
        ok_n = any(isinstance(v, ast.Call) and dotted(v.func) == "len" and v.args and isinstance(v.args[0], ast.Name) and v.args[0].id == lst for (m, st, v) in ncl)
        R.check("C15.a", "n_clusters_ is the length of the cluster list", ok_n, fit, ncl[-1][1] if ncl else fit.node, msg=f"{fit.short}: n_clusters_ assigned {[unparse(st) for (m, st, v) in ncl]}", key="n-clusters-len")
    # max_iterations attribute = constructor parameter, unaltered
    assigns = ctx.res.attr_assignments(hc, "max_iterations")
    ok_id = len(assigns) == 1 and assigns[0][0].name == "__init__" and isinstance(assigns[0][2], ast.Name) and assigns[0][2].id in assigns[0][0].params
    R.check("C15.a", "self.max_iterations is the constructor argument itself", ok_id, assigns[0][0] if assigns else fit, assigns[0][1] if assigns else fit.node,
            msg=f"{hc.name}: max_iterations is stored as `{unparse(assigns[0][2]) if assigns else None}`; a defaulting expression such as `x or 1000` turns an explicit cap of 0 "
                f"(what n_max_clusters=1 passes) into the default", key="cap-identity")


def rule_b(ctx: Context, R: Reporter, hc: ClassInfo):
    fit = hc.methods["fit"]
    flow = flow_of(fit.node)
    cfg = flow.cfg
    n = 0
    # locals that hold the minimum size: bound from the configured attribute, directly or in one branch of the default
    # (`m = self.min_points if .. else 2 * d`, or the if/else statement form with the attribute in the test)
    mp_locals = set()
    for ds_ in flow.defs_at.values():
        for d_ in ds_:
            if d_.kind != "assign" or d_.value is None or d_.node is None:
                continue
            reads_attr = any(isinstance(a_, ast.Attribute) and a_.attr == "min_points" and isinstance(a_.ctx, ast.Load) for a_ in ast.walk(d_.value))
            under_attr_test = any(isinstance(a_, ast.Attribute) and a_.attr == "min_points" for (t_, _p) in conds_holding_at(cfg, d_.node) for a_ in ast.walk(t_))
            if reads_attr or under_attr_test:
                mp_locals.add(d_.name)
    for nd in cfg.stmt_nodes():
        if nd.kind == "stmt" and isinstance(nd.stmt, ast.Assign) and isinstance(nd.stmt.value, ast.Tuple) and len(nd.stmt.value.elts) == 2 and all(isinstance(e, ast.Name) for e in nd.stmt.value.elts) and nd.loops:
            kids = [e.id for e in nd.stmt.value.elts]
            # children must be lists built in this function
            if not all(any(d.kind == "assign" and isinstance(d.value, ast.ListComp) for d in flow.reaching(nd, k)) for k in kids):
                continue
            n += 1
            facts = conds_holding_at(cfg, nd)
            tested = set()
            for (t, pol) in facts:
                if pol and isinstance(t, ast.Compare) and len(t.ops) == 1 and isinstance(t.ops[0], (ast.GtE, ast.Gt)) and isinstance(t.left, ast.Call) and dotted(t.left.func) == "len" and t.left.args and isinstance(t.left.args[0], ast.Name):
                    # the threshold is identified by what it is (the configured minimum size, possibly through its
                    # defaulting local), not by the name of the local that holds it
                    thr = ExprResolver(fit.node).resolve(t.comparators[0], nd)
                    is_min = any((isinstance(a_, ast.Attribute) and a_.attr == "min_points") or (isinstance(a_, ast.Name) and a_.id == "min_points" and a_.id in fit.params) for a_ in ast.walk(thr)) \
                        or norm_text(t.comparators[0]) == "min_points" \
                        or (isinstance(t.comparators[0], ast.Name) and t.comparators[0].id in mp_locals)
                    if is_min and isinstance(t.ops[0], ast.GtE):
                        tested.add(t.left.args[0].id)
            missing = [k for k in kids if k not in tested]
            R.check("C15.b", "an accepted split is dominated by len(child) >= min_points for both children", not missing, fit, nd.stmt,
                    msg=f"{fit.short}: split `{unparse(nd.stmt)}` is accepted without testing len({', '.join(missing)}) >= min_points: a child below the minimum size can be created",
                    key="min-size-both-children")
    R.floor("C15.b", "accepted-split assignments", n, 1)
    # min_points default: the attribute or 2 * n_features
    # the local that holds the threshold, found by what it is bound to (a value that reads the configured
    # `self.min_points`), whatever the local is called
    mp_names = set(mp_locals)
    if len(mp_names) != 1:
        mp_names = {"min_points"}
    mp_local = next(iter(mp_names))
    mp = [d for ds in flow.defs_at.values() for d in ds if d.name == mp_local and d.kind == "assign"]
    mp_ok = len(mp) == 1 and isinstance(mp[0].value, ast.IfExp)
    if len(mp) == 2:
        # the statement form: if <none test>: min_points = a / else: min_points = b
        for x in ast.walk(fit.node):
            if isinstance(x, ast.If) and len(x.body) == 1 and len(x.orelse) == 1 and {id(x.body[0]), id(x.orelse[0])} == {id(mp[0].stmt), id(mp[1].stmt)}:
                mp_ok = True
    R.check("C15.b", "min_points is the configured value or 2 * n_features", mp_ok, fit, mp[0].stmt if mp else fit.node,
            msg=f"{fit.short}: min_points defined by {[unparse(d.stmt) for d in mp]}", key="min-points-def")


def rule_c(ctx: Context, R: Reporter, hc: ClassInfo):
    fit = hc.methods["fit"]
    flow = flow_of(fit.node)
    cfg = flow.cfg
    # children: complementary selections of one index list
    comps = []
    for nd in cfg.stmt_nodes():
        if nd.kind == "stmt" and isinstance(nd.stmt, ast.Assign) and isinstance(nd.stmt.value, ast.ListComp) and isinstance(nd.stmt.targets[0], ast.Name) and len(nd.loops) >= 2:
            lc = nd.stmt.value
            if lc.generators and lc.generators[0].ifs:
                comps.append((nd, lc))
    R.floor("C15.c", "child selections", len(comps), 2)
    sel_vals = []
    srcs = set()
    label_src = []
    for (nd, lc) in comps[:2]:
        cond = lc.generators[0].ifs[0]
        ok = isinstance(cond, ast.Compare) and len(cond.ops) == 1 and isinstance(cond.ops[0], ast.Eq) and isinstance(const_value(cond.comparators[0]), int)
        if ok:
            sel_vals.append(const_value(cond.comparators[0]))
        srcs.add(norm_text(lc.elt) + "|" + norm_text(lc.generators[0].iter) + "|" + norm_text(cond.left if isinstance(cond, ast.Compare) else cond))
        label_src.append(_label_source(lc))
    R.check("C15.c", "children are the label == 0 and label == 1 selections of the same index list", sorted(sel_vals) == [0, 1] and len(srcs) == 1, fit, comps[0][0].stmt,
            msg=f"{fit.short}: children select labels {sel_vals} from {len(srcs)} distinct source expression(s): points could be lost or duplicated", key="children-partition")
    # the labelling model has two components
    two = False
    for (call, tg) in ctx.cg.sites.get(fit.qualname, []):
        if any(isinstance(t, ClassInfo) for t in tg):
            nc = call_arg(call, 0, "n_components")
            nd = flow.node_containing(call)
            tgt = nd.stmt.targets[0].id if nd is not None and isinstance(nd.stmt, ast.Assign) and isinstance(nd.stmt.targets[0], ast.Name) else None
            # the model whose predict produces the split labels
            for (cn, lc) in comps[:1]:
                labname = _label_source(lc)
                if labname:
                    for d in flow.reaching(cn, labname):
                        if d.value is not None and isinstance(d.value, ast.Call) and isinstance(d.value.func, ast.Attribute) and d.value.func.attr == "predict" and isinstance(d.value.func.value, ast.Name) and d.value.func.value.id == tgt:
                            two = const_value(nc) == 2
    R.check("C15.c", "split labels come from a two-component model", two, fit, comps[0][0].stmt, msg=f"{fit.short}: the model that labels the children does not have n_components=2", key="two-components")
    # final labels by enumerate(clusters)
    lab_ok = False
    for nd in cfg.stmt_nodes():
        if nd.kind == "for" and isinstance(nd.stmt.iter, ast.Call) and dotted(nd.stmt.iter.func) == "enumerate" and isinstance(nd.stmt.target, ast.Tuple):
            ci, idxs = nd.stmt.target.elts
            for st in nd.stmt.body:
                for s in ast.walk(st):
                    if isinstance(s, ast.Assign) and isinstance(s.targets[0], ast.Subscript) and isinstance(s.value, ast.Name) and isinstance(ci, ast.Name) and s.value.id == ci.id \
                            and isinstance(s.targets[0].slice, ast.Name) and isinstance(idxs, ast.Name) and s.targets[0].slice.id == idxs.id:
                        lab_ok = True
    R.check("C15.c", "every training point gets the index of its cluster in the final list", lab_ok, fit, fit.node, msg=f"{fit.short}: labels are not assigned as labels[indices] = cluster_idx under enumerate(clusters)", key="labels-enumerate")
    # predict: arg-reduction over axis 1 of arrays with n_clusters_ columns
    pred = hc.methods.get("predict")
    if pred is None:
        raise AnalysisError("C15.c: predict not found")
    rets = [r for r in walk_no_nested(pred.node) if isinstance(r, ast.Return) and r.value is not None]
    R.floor("C15.c", "returns of predict", len(rets), 1)
    pflow = flow_of(pred.node)
    n_red = 0

    def label_defs(e, at, seen):
        """Value expressions that can flow into a returned label vector (through plain names)."""
        if isinstance(e, ast.Name):
            out = []
            for d in pflow.reaching(at, e.id):
                if id(d) in seen:
                    continue
                seen.add(id(d))
                if d.kind != "assign" or d.value is None:
                    out.append((e, at))
                elif isinstance(d.value, ast.Constant) and d.value.value is None and not d.path:
                    continue  # `labels = None` placeholder, re-bound before use
                elif d.path:
                    out.append((ast.Subscript(value=d.value, slice=ast.Constant(value=d.path[0] if d.path else 0), ctx=ast.Load()), d.node))
                else:
                    out += label_defs(d.value, d.node, seen)
            return out
        return [(e, at)]

    for r in rets:
        rn = pflow.node_containing(r)
        for (v, at) in label_defs(r.value, rn, set()):
            ok = isinstance(v, ast.Call) and (ctx.res.external_name(pred, v) or "") in ("numpy.argmax", "numpy.argmin") and const_value(call_arg(v, 1, "axis")) == 1
            n_red += 1 if ok else 0
            R.check("C15.c", "predict returns an arg-reduction over the cluster axis", ok, pred, v if hasattr(v, "lineno") else r,
                    msg=f"{pred.short}: returns `{unparse(v)[:60]}`: a label that is not the column index of the winning cluster (e.g. re-numbered to consecutive ids) no longer "
                        f"addresses the cluster list / the proposal modes built from it", key=f"predict-argreduce:{norm_text(v)[:40]}")
    R.floor("C15.c", "arg-reductions flowing into the returned labels", n_red, 2)
    # the probability matrix has n_clusters_ columns
    prob = hc.methods.get("_compute_gaussian_probabilities")
    if prob is not None:
        ok = any(isinstance(c, ast.Call) and (ctx.res.external_name(prob, c) or "") == "numpy.zeros" and "self.n_clusters_" in norm_text(c) for c in calls_in(prob.node))
        R.check("C15.c", "the probability matrix has one column per cluster", ok, prob, prob.node, msg=f"{prob.short}: probability matrix is not allocated with n_clusters_ columns", key="prob-columns")


def _label_source(lc: ast.ListComp) -> Optional[str]:
    """Name of the label vector tested by a child-selection comprehension:
    `labels[i] == c` or `lab == c` with `for i, lab in enumerate(labels)` / zip(indices, labels)."""
    cond = lc.generators[0].ifs[0]
    if not isinstance(cond, ast.Compare):
        return None
    lab = cond.left
    if isinstance(lab, ast.Subscript) and isinstance(lab.value, ast.Name):
        return lab.value.id
    if isinstance(lab, ast.Name):
        g = lc.generators[0]
        it = g.iter
        if isinstance(it, ast.Call) and dotted(it.func) in ("enumerate", "zip") and isinstance(g.target, ast.Tuple):
            names = [t.id if isinstance(t, ast.Name) else None for t in g.target.elts]
            if lab.id in names:
                pos = names.index(lab.id)
                if dotted(it.func) == "enumerate" and pos == 1 and it.args and isinstance(it.args[0], ast.Name):
                    return it.args[0].id
                if dotted(it.func) == "zip" and pos < len(it.args) and isinstance(it.args[pos], ast.Name):
                    return it.args[pos].id
    return None


def rule_d(ctx: Context, R: Reporter, gc: ClassInfo):
    m = gc.methods["_m_step"]
    flow = flow_of(m.node)
    rets = [n for n in flow.cfg.stmt_nodes() if n.kind == "stmt" and isinstance(n.stmt, ast.Return) and isinstance(n.stmt.value, ast.Tuple)]
    if not rets:
        raise AnalysisError("C15.d: M-step does not return a tuple")
    rn = rets[0]
    first = rn.stmt.value.elts[0]
    normalised = False
    colsum = False
    if isinstance(first, ast.Name):
        from .c20 import chain_defs

        from ..util import own_sum_normalisation

        for d in chain_defs(flow, rn, first.id):
            if d.kind in ("aug", "assign") and d.stmt is not None and not d.path and own_sum_normalisation(ctx, m, d.stmt, d.node)[0] is True:
                normalised = True
            if d.kind == "aug" and isinstance(d.value.op, ast.Div) and isinstance(d.value.value, ast.Call) and (ctx.res.external_name(m, d.value.value) or "") == "numpy.sum" and d.value.value.args and norm_text(d.value.value.args[0]) == first.id:
                normalised = True
            if d.kind == "assign" and d.value is not None:
                rv = ExprResolver(m.node).resolve(d.value, d.node)
                if isinstance(rv, ast.BinOp) and isinstance(rv.op, ast.Div) and isinstance(rv.right, ast.Call) and (ctx.res.external_name(m, rv.right) or "") == "numpy.sum" and rv.right.args and norm_text(rv.right.args[0]) == norm_text(rv.left):
                    normalised = True
                    rv = rv.left
                # a copy of the sums is the sums
                while True:
                    if isinstance(rv, ast.Call) and isinstance(rv.func, ast.Attribute) and rv.func.attr == "copy" and not rv.args and not rv.keywords:
                        rv = rv.func.value
                    elif isinstance(rv, ast.Call) and (ctx.res.external_name(m, rv) or "") in ("numpy.copy", "numpy.array", "numpy.asarray") and len(rv.args) == 1 \
                            and all(k.arg in ("copy", "dtype") and (k.arg != "dtype" or norm_text(k.value) in ("float", "np.float64", "numpy.float64")) for k in rv.keywords):
                        rv = rv.args[0]
                    else:
                        break
                if isinstance(rv, ast.Call) and (ctx.res.external_name(m, rv) or "") == "numpy.sum" and any(k.arg == "axis" and const_value(k.value) == 0 for k in rv.keywords):
                    colsum = True
    R.check("C15.d", "the M-step returns mixture weights normalised to sum to one", normalised, m, rn.stmt,
            msg=f"{m.short}: the first returned value `{unparse(first)}` is not self-normalised (x / sum(x))", key="mstep-normalised")
    R.check("C15.d", "mixture weights are sums of responsibilities times sample weights (non-negative)", colsum, m, rn.stmt,
            msg=f"{m.short}: `{unparse(first)}` is not a column sum of the weighted responsibilities", key="mstep-sum")


def rule_g(ctx: Context, R: Reporter, gc: ClassInfo):
    """C15.g  convexity and centring in the M-step (structural necessary conditions
    for "mean inside the bounding box" and "PSD covariance"):
      * the component means are `dot(W.T, X) / (sum(W, axis=0)[:, None] [+ eps])`
        with one and the same W: a weighted average normalised by the sum of its
        own weights (any other denominator is not a convex combination);
      * every covariance term is built from centred data `X - means[k]` only: the
        raw data array never enters a product and no `outer(mean, mean)` is
        subtracted (the one-pass E[xx'] - mm' form cancels catastrophically and is
        not PSD in floating point)."""
    m = gc.methods["_m_step"]
    flow = flow_of(m.node)
    ps = [p for p in m.params if p != "self"]
    X = ps[0]
    n = 0
    # means: the local the M-step hands back as its second value (weights, means, covariances), whatever it is called
    means_name = "means"
    for r_ in walk_no_nested(m.node):
        if isinstance(r_, ast.Return) and isinstance(r_.value, ast.Tuple) and len(r_.value.elts) == 3 and isinstance(r_.value.elts[1], ast.Name):
            means_name = r_.value.elts[1].id
    rs = ExprResolver(m.node)
    for nd in flow.cfg.stmt_nodes():
        if nd.kind == "stmt" and isinstance(nd.stmt, ast.Assign) and isinstance(nd.stmt.targets[0], ast.Name) and nd.stmt.targets[0].id == means_name:
            n += 1
            v = nd.stmt.value
            ok = False
            why = "not a quotient"
            if isinstance(v, ast.BinOp) and isinstance(v.op, ast.Div):
                num, den = v.left, v.right
                W = None
                if isinstance(num, ast.Call) and (ctx.res.external_name(m, num) or "") in ("numpy.dot", "numpy.matmul") and len(num.args) == 2 and norm_text(num.args[1]) == X:
                    a0 = num.args[0]
                    W = a0.value if isinstance(a0, ast.Attribute) and a0.attr == "T" else None
                elif isinstance(num, ast.BinOp) and isinstance(num.op, ast.MatMult) and norm_text(num.right) == X and isinstance(num.left, ast.Attribute) and num.left.attr == "T":
                    W = num.left.value
                why = "numerator is not dot(W.T, X)"
                if W is not None:
                    wtxt = norm_text(W)
                    dres = rs.resolve(den, nd)
                    # strip `+ eps` and `[:, None]`
                    core = dres
                    if isinstance(core, ast.BinOp) and isinstance(core.op, ast.Add) and isinstance(core.right, ast.Constant):
                        core = core.left
                    if isinstance(core, ast.Subscript):
                        core = core.value
                    ok = isinstance(core, ast.Call) and (ctx.res.external_name(m, core) or "") == "numpy.sum" and core.args and norm_text(core.args[0]) in (wtxt, norm_text(rs.resolve(W, nd))) \
                        and any(k.arg == "axis" and const_value(k.value) == 0 for k in core.keywords)
                    why = f"denominator `{unparse(dres)[:50]}` is not sum({wtxt}, axis=0)"
            R.check("C15.g", "component means are weighted averages normalised by the sum of their own weights", ok, m, nd.stmt,
                    msg=f"{m.short}: `{unparse(nd.stmt)[:70]}`: {why}; with another denominator the mean is not a convex combination of the data (it leaves the bounding box when "
                        f"responsibilities underflow or the weights are not exactly normalised)", key="means-convex")
    R.floor("C15.g", "definitions of the component means in the M-step", n, 1)
    # covariances
    cf = None
    for (c, tg) in ctx.cg.sites.get(m.qualname, []):
        for t in tg:
            if isinstance(t, FuncInfo) and "covarian" in t.name:
                cf = t
    if cf is None:
        raise AnalysisError("C15.g: covariance routine called by the M-step not found")
    cps = [p for p in cf.params if p != "self"]
    cX, cM = cps[0], cps[1]
    raw = []
    for x in ast.walk(cf.node):
        if isinstance(x, ast.Call) and (ctx.res.external_name(cf, x) or "") in ("numpy.dot", "numpy.matmul", "numpy.einsum", "numpy.outer", "numpy.multiply", "numpy.cov"):
            for a in x.args:
                for y in ast.walk(a):
                    if isinstance(y, ast.Name) and y.id in (cX, cM) and not _inside_difference(a, y, cX, cM):
                        raw.append((x, y.id))
        if isinstance(x, ast.BinOp) and isinstance(x.op, (ast.Mult, ast.MatMult, ast.Pow)):
            for side in (x.left, x.right):
                for y in ast.walk(side):
                    if isinstance(y, ast.Name) and y.id in (cX, cM) and not _inside_difference(side, y, cX, cM):
                        raw.append((x, y.id))
    seen = set()
    for (x, nm) in raw:
        k = norm_text(x)[:50]
        if k in seen:
            continue
        seen.add(k)
        R.check("C15.g", "covariance terms are products of centred data only", False, cf, x,
                msg=f"{cf.short}: `{unparse(x)[:70]}` multiplies the un-centred `{nm}`: a covariance assembled as E[xx'] - mm' cancels catastrophically for data far from the origin "
                    f"(negative eigenvalues, asymmetric result)", key=f"uncentred-product:{k}")
    diffs = [x for x in ast.walk(cf.node) if isinstance(x, ast.BinOp) and isinstance(x.op, ast.Sub) and norm_text(x.left) == cX and cM in norm_text(x.right)]
    R.floor("C15.g", "centred differences X - means[k] in the covariance routine", len(diffs), 1)
    if not raw:
        R.check("C15.g", "covariance terms are products of centred data only", True, cf, cf.node, key="uncentred-product")


def _inside_difference(root: ast.AST, name_node: ast.AST, X: str, M: str) -> bool:
    """Is `name_node` (an occurrence of X or means) an operand of a difference `X - means[...]` inside root?"""
    for x in ast.walk(root):
        if isinstance(x, ast.BinOp) and isinstance(x.op, ast.Sub):
            if any(y is name_node for y in ast.walk(x)) and any(isinstance(y, ast.Name) and y.id == X for y in ast.walk(x.left)) and any(isinstance(y, ast.Name) and y.id == M for y in ast.walk(x.right)):
                return True
    return False


def rule_e(ctx: Context, R: Reporter, gc: ClassInfo, hc: ClassInfo):
    # library estimators with a weights argument: only the frequency-weight (maximum-likelihood) forms are
    # equivalent to replicating points; np.cov(aweights=...) applies a reliability-weight bias correction
    for f in ctx.prog.functions.values():
        if f.module is not gc.module:
            continue
        for c in calls_in(f.node):
            nm = ctx.res.external_name(f, c) or ""
            if nm == "numpy.cov" and any(k.arg == "aweights" for k in c.keywords):
                okb = any(k.arg == "bias" and const_value(k.value) is True for k in c.keywords) or any(k.arg == "ddof" and const_value(k.value) == 0 for k in c.keywords)
                R.check("C15.e", "weighted covariance estimators are replication-consistent", okb, f, c,
                        msg=f"{f.short}: `{unparse(c)[:70]}` uses np.cov's reliability weights with its default bias correction: the estimate differs from the one obtained by "
                            f"replicating points according to integer weights (and from the EM M-step of the other code path)", key=f"cov-aweights:{f.short}")
    # the weight vector keeps a floating dtype of its own: a conversion to a dtype taken from the data truncates
    # fractional weights for integer-valued data (lattice points, duplicated points), so weights m/2 no longer act
    # like replication by m and an all-fractional vector becomes all zero
    FLOAT_OK = {"float", "np.float64", "numpy.float64", "np.double", "'float64'", '"float64"', "np.float_", "np.longdouble", "None"}
    for f in ctx.prog.functions.values():
        if f.module is not gc.module or "sample_weight" not in f.params:
            continue
        for n_ in walk_no_nested(f.node):
            if not (isinstance(n_, ast.Assign) and any(isinstance(t, ast.Name) and t.id == "sample_weight" for t in n_.targets)):
                continue
            for c in ast.walk(n_.value):
                if isinstance(c, ast.Call):
                    dt = next((k.value for k in c.keywords if k.arg == "dtype"), None)
                    if isinstance(c.func, ast.Attribute) and c.func.attr == "astype" and c.args:
                        dt = c.args[0]
                    if dt is not None and norm_text(dt) not in FLOAT_OK:
                        R.check("C15.e", "sample weights are kept in a floating dtype of their own", False, f, c,
                                msg=f"{f.short}: `{unparse(c)[:60]}` converts the sample weights to `{unparse(dt)}`: for integer-valued data the weights are truncated to integers "
                                    f"before normalisation (fractional weights no longer equivalent to replication; all-fractional weights become zero)",
                                key=f"weights-dtype:{f.short}")
    # labels are a per-row function of the query: nothing in the clustering module may turn benign underflow
    # into an exception (the fallback then replaces the rule for the whole batch, so a row's label depends on
    # which other rows happen to be in the batch)
    from ..util import errstate_underflow_sites

    for f in ctx.prog.functions.values():
        if f.module is not gc.module:
            continue
        for c in errstate_underflow_sites(f.node):
            R.check("C15.c", "floating-point underflow is not turned into an exception in the clustering code", False, f, c,
                    msg=f"{f.short}: `{unparse(c)[:50]}` raises on underflow: exp() of a far-away row underflows harmlessly, but the exception switches the whole batch to the "
                        f"fallback rule -- the label of a point then depends on the other points it is predicted together with", key=f"errstate-underflow:{f.short}")
    n = 0
    for cls in (gc, hc):
        fit = cls.methods["fit"]

        def internal(call, cls=cls, fit=fit):
            if isinstance(call.func, ast.Attribute) and isinstance(call.func.value, ast.Name) and call.func.value.id == "self":
                m = ctx.prog.mro_lookup(cls, call.func.attr)
                if m is not None:
                    return (m.node, (lambda c, m=m: ctx.res.external_name(m, c)), True)
            return None

        extra = {
            "scipy.stats.multivariate_normal.pdf": lambda di, e, args: INV,
            "scipy.stats.multivariate_normal.logpdf": lambda di, e, args: INV,
            "numpy.searchsorted": lambda di, e, args: INV,
            "numpy.log": lambda di, e, args: INV if args and args[0].kind == "deg" and args[0].k == 0 else (di._conflict("log of a value that scales with the sample weights", e) if args and args[0].kind == "deg" else (args[0] if args else INV)),
        }
        di = DegreeInterp(lambda c, fit=fit: ctx.res.external_name(fit, c), weight_params=("sample_weight",), internal=internal, extra_degrees=extra)
        rets = di.run(fit.node)
        n += 1
        seen = set()
        for c in di.conflicts:
            k = norm_text(c.node)[:80] if c.node is not None else c.why
            if k in seen:
                continue
            seen.add(k)
            R.check("C15.e", f"{cls.name}.fit: no arithmetic mixes the sample-weight scale with absolute constants", False, fit, c.node if c.node is not None else fit.node,
                    msg=f"{cls.name}.fit: {c.why} at `{unparse(c.node)[:70] if c.node is not None else ''}`: the fit depends on the absolute scale of the sample weights "
                        f"(e.g. the 1e-10 guards dominate for tiny weights) -- normalise the weights first", key=f"scale-conflict:{cls.name}:{k}")
        if not di.conflicts:
            R.check("C15.e", f"{cls.name}.fit is invariant under rescaling of the sample weights (degree typing closed)", True, fit, fit.node, key=f"scale-clean:{cls.name}")
        R.analysed[f"C15.e:{cls.name}.unknown_ops"] = sorted({u.why for u in di.unknowns})[:10]
    R.floor("C15.e", "fit routines typed", n, 2)


def rule_h(ctx: Context, R: Reporter, gc: ClassInfo):
    """C15.h  every component density of the mixture is a *regularised* density: the per-component column stores
    (A[:, k] = ...) and the density accumulations of the mixture class take their density from a
    multivariate_normal.pdf / logpdf call whose covariance carries the reg_covar jitter (or are a constant such as
    -inf on the error path).  A density computed by other code that never sees reg_covar is not defined for a
    component with a zero-variance coordinate (0/0 = NaN), which the property's data sets (degenerate clusters,
    duplicated points) produce."""
    n = 0
    n_calls = 0
    for m in gc.methods.values():
        for c in calls_in(m.node):
            nm = ctx.res.external_name(m, c) or dotted(c.func)
            if nm.split(".")[-1] in ("pdf", "logpdf") and "multivariate_normal" in nm:
                n_calls += 1
                cov = call_arg(c, 2, "cov")

                def sees_reg(e, fi_, depth=0) -> bool:
                    """reg_covar occurs in the expression, in the local definitions it is built from, or in a helper of the class it calls"""
                    if e is None or depth > 3:
                        return False
                    if any(isinstance(x, ast.Attribute) and x.attr == "reg_covar" for x in ast.walk(e)):
                        return True
                    for x in ast.walk(e):
                        if isinstance(x, ast.Call):
                            for t in ctx.res.call_targets(fi_, x):
                                if isinstance(t, FuncInfo) and any(isinstance(r_, ast.Return) and sees_reg(r_.value, t, depth + 1) for r_ in ast.walk(t.node)):
                                    return True
                        elif isinstance(x, ast.Name) and depth < 2:
                            fl_ = flow_of(fi_.node)
                            at_ = fl_.node_containing(e) if hasattr(fl_, "node_containing") else None
                            for d_ in (fl_.reaching(at_, x.id) if at_ is not None else []):
                                if d_.value is not None and d_.kind == "assign" and sees_reg(d_.value, fi_, depth + 1):
                                    return True
                    return False

                ok = sees_reg(cov, m)
                R.check("C15.h", "the covariance handed to the density carries the reg_covar jitter", ok, m, c,
                        msg=f"{m.short}: `{unparse(c)[:70]}` evaluates a component density on the bare covariance (no reg_covar): singular for a degenerate component",
                        key=f"density-unregularised:{m.short}")
        flow = None
        if not any("multivariate_normal" in (ctx.res.external_name(m, c) or dotted(c.func)) for c in calls_in(m.node)):
            continue  # not a density site (e.g. the distance-based initialisation)
        for st in walk_no_nested(m.node):
            tgt = None
            if isinstance(st, ast.Assign) and len(st.targets) == 1:
                tgt = st.targets[0]
            elif isinstance(st, ast.AugAssign):
                tgt = st.target
            if not (isinstance(tgt, ast.Subscript) and isinstance(tgt.slice, ast.Tuple) and len(tgt.slice.elts) == 2 and isinstance(tgt.slice.elts[0], ast.Slice)
                    and tgt.slice.elts[0].lower is None and tgt.slice.elts[0].upper is None and isinstance(tgt.slice.elts[1], ast.Name)):
                continue
            # a per-component column of an (n_samples, n_components) array
            flow = flow or flow_of(m.node)
            at = flow.node_containing(st)
            rv = ExprResolver(m.node).resolve(st.value, at) if at is not None else st.value
            n += 1
            mvn = [c for c in ast.walk(rv) if isinstance(c, ast.Call) and dotted(c.func).split(".")[-1] in ("pdf", "logpdf") and "multivariate_normal" in dotted(c.func)]
            const = not any(isinstance(x, (ast.Call, ast.Subscript)) for x in ast.walk(rv)) or (isinstance(rv, ast.UnaryOp) and isinstance(rv.operand, ast.Attribute))
            if mvn or const:
                R.check("C15.h", "the component column is filled from the regularised scipy density (or a constant)", True, m, st, key=f"column-density:{m.short}")
                continue
            internal = [c for c in ast.walk(rv) if isinstance(c, ast.Call) and any(isinstance(t, FuncInfo) for t in ctx.res.call_targets(m, c))]
            sees_reg = any(isinstance(x, ast.Attribute) and x.attr == "reg_covar" for x in ast.walk(rv)) or any(
                isinstance(x, ast.Attribute) and x.attr == "reg_covar" for c in internal for t in ctx.res.call_targets(m, c) if isinstance(t, FuncInfo) for x in ast.walk(t.node))
            if sees_reg:
                raise AnalysisError(f"C15.h: {m.short}: `{unparse(st)[:60]}` fills a component column from a density that is not scipy's multivariate_normal but does use reg_covar: outside the rule's vocabulary")
            R.check("C15.h", "the component column is filled from the regularised scipy density (or a constant)", False, m, st,
                    msg=f"{m.short}: `{unparse(st)[:70]}` fills the column of component k from a density computed without the reg_covar jitter (no multivariate_normal call on a "
                        f"regularised covariance on its data path): for a component with a zero-variance coordinate the value is 0/0 = NaN and poisons responsibilities, "
                        f"weights, means and covariances", key=f"column-density:{m.short}")
    R.floor("C15.h", "component-column stores in the mixture class", n, 3)
    R.floor("C15.h", "scipy density calls in the mixture class", n_calls, 4)


def rule_i(ctx: Context, R: Reporter, gc: ClassInfo, hc: ClassInfo):
    """C15.i  numpy contract: `a[idx] += v` with an integer index array applies each distinct index once -- repeated
    indices are NOT accumulated (np.add.at / np.bincount do that).  An index array that repeats by construction (the
    inverse of np.unique, labels / assignments, a draw with replacement, searchsorted / digitize bins) must not be the
    subscript of an augmented assignment: merged weights / counts silently lose all but the last contribution."""
    REPEATING = ("unique", "searchsorted", "digitize", "choice", "randint", "argmin", "argmax", "predict")
    n = 0
    for cls in (gc, hc):
        for m in cls.methods.values():
            flow = None
            for st in walk_no_nested(m.node):
                if not (isinstance(st, ast.AugAssign) and isinstance(st.target, ast.Subscript)):
                    continue
                idx = st.target.slice
                if isinstance(idx, (ast.Slice, ast.Constant)) or (isinstance(idx, ast.Tuple) and all(isinstance(e, (ast.Slice, ast.Constant)) or (isinstance(e, ast.Name) and len(e.id) == 1) for e in idx.elts)):
                    continue
                n += 1
                flow = flow or flow_of(m.node)
                at = flow.node_containing(st)
                rv = ExprResolver(m.node).resolve(idx, at) if at is not None else idx
                why = None
                for c in ast.walk(rv):
                    if isinstance(c, ast.Call) and dotted(c.func).split(".")[-1] in REPEATING:
                        why = dotted(c.func)
                # a name bound by tuple-unpacking np.unique(..., return_inverse=True)
                for x in ast.walk(idx):
                    if isinstance(x, ast.Name) and at is not None:
                        for d in flow.reaching(at, x.id):
                            if d.value is not None and isinstance(d.value, ast.Call) and dotted(d.value.func).split(".")[-1] in REPEATING and any(k.arg in ("return_inverse",) for k in d.value.keywords):
                                why = dotted(d.value.func) + "(return_inverse=True)"
                            elif d.value is not None and isinstance(d.value, ast.Call) and dotted(d.value.func).split(".")[-1] in REPEATING and dotted(d.value.func).split(".")[-1] != "unique":
                                why = dotted(d.value.func)
                R.check("C15.i", "no in-place accumulation through an index array that repeats by construction", why is None, m, st,
                        msg=f"{m.short}: `{unparse(st)[:70]}` accumulates through an index array from `{why}`, which repeats indices by construction: numpy applies each distinct "
                            f"index once, so all but one contribution per index are dropped (use np.add.at / np.bincount)", key=f"fancy-accumulate:{m.short}")
    R.check("C15.i", "augmented assignments through index arrays scanned", True, None, None, key="fancy-accumulate-scan")
    R.analysed["C15.i:augmented subscript stores scanned"] = n


def rule_j(ctx: Context, R: Reporter, gc: ClassInfo, hc: ClassInfo):
    """C15.j  fitting and predicting read the caller's arrays, they do not write them: no in-place write reaches X or the
    sample weights handed to fit() / predict() (`X -= offset` centres the caller's particle pool, and the labels and
    mode statistics computed from it afterwards live in shifted coordinates)."""
    from ..fresh import inputs_untouched_rule

    funcs = [m for c in (gc, hc) for m in c.methods.values() if m.name in ("fit", "predict", "predict_proba", "bic", "_e_step", "_m_step", "_initialize_parameters", "_compute_lower_bound")]
    inputs_untouched_rule(ctx, R, "C15.j", funcs, "the caller's data / weights are changed by the fit, so everything the caller computes from them afterwards (labels, mode statistics) refers "
                          "to other points than the ones it holds", min_funcs=6)


def rule_k(ctx: Context, R: Reporter, gc: ClassInfo):
    """C15.k  "integer sample weights are equivalent to replicating points": inside the weighted mixture every statistic
    of the data rows is a *weighted* one.  An unweighted `np.var(X)`, `np.mean(X)`, `np.std`, `np.cov`, `np.median`,
    `np.percentile` of the data in a method that also receives the sample weights lets zero-weight rows steer the fit."""
    STATS = ("numpy.var", "numpy.std", "numpy.mean", "numpy.cov", "numpy.median", "numpy.percentile", "numpy.quantile", "numpy.ptp", "numpy.nanmean", "numpy.nanvar", "numpy.nanstd")
    n = 0
    for m in gc.methods.values():
        wnames = [p for p in m.params if "weight" in p]
        dnames = [p for p in m.params if p in ("X", "data", "x")]
        if not wnames or not dnames:
            continue
        n += 1
        for c in calls_in(m.node):
            nm = ctx.res.external_name(m, c) or ""
            meth = isinstance(c.func, ast.Attribute) and c.func.attr in ("var", "std", "mean") and isinstance(c.func.value, ast.Name) and c.func.value.id in dnames
            if nm in STATS and c.args:
                a0 = c.args[0]
                base = a0
                while isinstance(base, ast.Subscript):
                    base = base.value
                on_data = isinstance(base, ast.Name) and base.id in dnames
                weighted = any(k.arg in ("weights", "aweights", "fweights") for k in c.keywords)
                if not on_data or weighted:
                    continue
            elif not meth:
                continue
            R.check("C15.k", "statistics of the data rows inside the weighted mixture are weighted", False, m, c,
                    msg=f"{m.short}: `{unparse(c)[:60]}` is an unweighted statistic of the data rows in a method that has the sample weights: rows of zero (or tiny) weight influence "
                        f"the fit, so fit(X, w) no longer equals fit(np.repeat(X, w)) for integer weights", key=f"unweighted-statistic:{m.short}")
    R.check("C15.k", "weighted-mixture methods scanned for unweighted data statistics", True, None, None, key="unweighted-statistic-scan")
    R.floor("C15.k", "mixture methods receiving data and weights", n, 3)


def rule_l(ctx: Context, R: Reporter, gc: ClassInfo):
    """C15.l  a row of responsibilities is never 0/0.  Every division of the E-step's responsibility matrix by its row sums
    either adds a positive constant to the divisor, or the matrix was built as exp(L - max(L, axis=1, keepdims=True)) so
    that every row contains a term equal to one.  A shift by the *global* maximum (or none) lets a point far below the
    densest one underflow in every column; its row becomes nan and spreads to weights, means and covariances."""
    es = gc.methods.get("_e_step")
    if es is None:
        raise AnalysisError("C15.l: the mixture model has no _e_step")
    flow = flow_of(es.node)
    n = 0

    def row_sum(e):
        return isinstance(e, ast.Call) and ((dotted(e.func) in ("np.sum", "numpy.sum")) or (isinstance(e.func, ast.Attribute) and e.func.attr == "sum")) \
            and any(k.arg == "axis" and const_value(k.value) in (1, -1) for k in e.keywords)

    for st in walk_no_nested(es.node):
        tgt = div = None
        if isinstance(st, ast.AugAssign) and isinstance(st.op, ast.Div) and isinstance(st.target, ast.Name):
            tgt, div = st.target.id, st.value
        elif isinstance(st, ast.Assign) and isinstance(st.value, ast.BinOp) and isinstance(st.value.op, ast.Div) and isinstance(st.value.left, ast.Name) and len(st.targets) == 1 \
                and isinstance(st.targets[0], ast.Name):
            tgt, div = st.value.left.id, st.value.right
        if tgt is None or not any(row_sum(x) for x in ast.walk(div)):
            continue
        n += 1
        guarded = isinstance(div, ast.BinOp) and isinstance(div.op, ast.Add) and any(isinstance(x, ast.Constant) and isinstance(x.value, (int, float)) and x.value > 0 for x in (div.left, div.right))
        shifted = False
        at = flow.node_containing(st)
        for d in (flow.reaching(at, tgt) if at is not None else []):
            v = d.value if d.kind == "assign" else None
            if isinstance(v, ast.Call) and dotted(v.func) in ("np.exp", "numpy.exp") and v.args and isinstance(v.args[0], ast.BinOp) and isinstance(v.args[0].op, ast.Sub):
                sh = v.args[0].right
                if isinstance(sh, ast.Name):
                    ds2 = flow.reaching(d.node, sh.id)
                    if len(ds2) == 1 and ds2[0].kind == "assign" and ds2[0].value is not None:
                        sh = ds2[0].value
                if isinstance(sh, ast.Call) and (dotted(sh.func) in ("np.max", "numpy.max", "np.amax", "numpy.amax") or (isinstance(sh.func, ast.Attribute) and sh.func.attr == "max")) \
                        and any(k.arg == "axis" and const_value(k.value) in (1, -1) for k in sh.keywords) and any(k.arg == "keepdims" and const_value(k.value) is True for k in sh.keywords):
                    shifted = True
        R.check("C15.l", "a row of responsibilities is never 0/0 (guarded divisor, or exponentials shifted by the row maximum)", guarded or shifted, es, st,
                msg=f"{es.short}: `{unparse(st)[:70]}` divides by the bare row sums and the rows are not shifted by their own maximum: a point whose density underflows in every component "
                    f"gives 0/0 = nan, which spreads to the mixture weights, means and covariances", key="row-normalisation-unguarded")
    R.floor("C15.l", "row normalisations of the responsibility matrix in the E-step", n, 1)


def run(ctx: Context, R: Reporter):
    hc = hier_class(ctx)
    gc = gmm_class(ctx, hc)
    R.guard(rule_a, ctx, R, hc)
    R.guard(rule_b, ctx, R, hc)
    R.guard(rule_c, ctx, R, hc)
    R.guard(rule_d, ctx, R, gc)
    R.guard(rule_e, ctx, R, gc, hc)
    R.guard(rule_f, ctx, R, gc, hc)
    R.guard(rule_g, ctx, R, gc)
    R.guard(rule_h, ctx, R, gc)
    R.guard(rule_i, ctx, R, gc, hc)
    R.guard(rule_j, ctx, R, gc, hc)
    R.guard(rule_k, ctx, R, gc)
    R.guard(rule_l, ctx, R, gc)


def rule_f(ctx: Context, R: Reporter, gc, hc):
    """C15.f  predictions are a function of the *last* fit: whatever the
    clustering classes memoise across calls is reset by every method that
    changes the fitted parameters (fit)."""
    from ..memo import memo_rule

    classes = [c for c in ctx.prog.classes.values() if c.module is hc.module]
    memo_rule(ctx, R, "C15.f", classes, "predict() after a refit labels points with the components of an earlier fit (labels and fitted modes disagree)", min_memos=0)


def _scale_memo_variant(with_reset: bool):
    from ..variants import chain, insert_after, insert_before, replace_stmt

    cl = "tempest/cluster.py"
    H = "HierarchicalGaussianMixture"
    steps = [
        insert_after(cl, H + ".__init__", "self._data_max = None", "self._scale_memo = None"),
        replace_stmt(cl, H + "._compute_gaussian_probabilities", "scale = self._data_max - self._data_min",
                     "if self._scale_memo is None:\n    self._scale_memo = self._data_max - self._data_min\nscale = self._scale_memo"),
    ]
    if with_reset:
        steps.append(insert_after(cl, H + ".fit", "self._data_max = np.max(X, axis=0)", "self._scale_memo = None"))
    return chain(*steps)


def variants():
    from ..variants import Variant, normalisation_twins, alpha_rename, delete_stmt, insert_after, insert_before, replace_expr, replace_stmt

    cl = "tempest/cluster.py"
    H = "HierarchicalGaussianMixture"
    return [
        Variant("f-scale-memo-never-reset", "bad", _scale_memo_variant(False), ["C15.f"], quick=True),
        Variant("f-scale-memo-reset-benign", "benign", _scale_memo_variant(True)),
        Variant("e-weights-cast-to-data-dtype", "bad", replace_stmt(cl, "GaussianMixture.fit", "sample_weight = np.asarray(sample_weight)", "sample_weight = np.asarray(sample_weight, dtype=X.dtype)"), ["C15.e"], quick=True),
        Variant("e-benign-weights-float", "benign", replace_stmt(cl, "GaussianMixture.fit", "sample_weight = np.asarray(sample_weight)", "sample_weight = np.asarray(sample_weight, dtype=float)")),
        Variant("c-errstate-raise", "bad", replace_stmt(cl, f"{H}._compute_gaussian_probabilities", "log_prob_norm = logsumexp(log_probabilities, axis=1, keepdims=True)", "with np.errstate(all='raise'):\n    log_prob_norm = logsumexp(log_probabilities, axis=1, keepdims=True)"), ["C15.c"]),
        Variant("a-cap-or-default", "bad", replace_stmt(cl, f"{H}.__init__", "self.max_iterations = max_iterations", "self.max_iterations = max_iterations or 1000"), ["C15.a"], quick=True),
        Variant("l-estep-guard-dropped", "bad", replace_stmt(cl, "GaussianMixture._e_step", "responsibilities /= np.sum(responsibilities, axis=1, keepdims=True) + 1e-10", "responsibilities /= np.sum(responsibilities, axis=1, keepdims=True)"), ["C15.l"], quick=True),
        Variant("l-benign-estep-guard-bound-first", "benign", replace_stmt(cl, "GaussianMixture._e_step", "responsibilities /= np.sum(responsibilities, axis=1, keepdims=True) + 1e-10", "responsibilities /= 1e-10 + np.sum(responsibilities, axis=1, keepdims=True)")),
        Variant("a-counter-reused-by-inner-loop", "bad", insert_before(cl, f"{H}.fit", "iteration += 1", "for iteration in range(1, self.n_init):\n    pass"), ["C15.a"], quick=True),
        Variant("a-counter-conditional", "bad", replace_stmt(cl, f"{H}.fit", "iteration += 1", "if best_split is not None:\n    iteration += 1"), ["C15.a", "ANALYSIS-ERROR"]),
        Variant("a-loop-le", "bad", replace_expr(cl, f"{H}.fit", "iteration < self.max_iterations", "iteration <= self.max_iterations"), ["C15.a"], quick=True),
        Variant("b-child1-twice", "bad", replace_expr(cl, f"{H}.fit", "len(child1) >= min_points and len(child2) >= min_points", "len(child1) >= min_points and len(child1) >= min_points"), ["C15.b"], quick=True),
        Variant("b-strict", "bad", replace_expr(cl, f"{H}.fit", "len(child2) >= min_points", "len(child2) >= 1"), ["C15.b"]),
        Variant("c-children-overlap", "bad", replace_expr(cl, f"{H}.fit", "labels[i] == 1", "labels[i] >= 0"), ["C15.c"]),
        Variant("c-three-components", "bad", replace_expr(cl, f"{H}.fit", "GaussianMixture(n_components=2, covariance_type=self.covariance_type, n_init=self.n_init)", "GaussianMixture(n_components=3, covariance_type=self.covariance_type, n_init=self.n_init)"), ["C15.c"]),
        Variant("d-mstep-unnormalised", "bad", delete_stmt(cl, "GaussianMixture._m_step", "weights /= np.sum(weights)"), ["C15.d"], quick=True),
        *normalisation_twins("d", cl, "GaussianMixture._m_step", "weights /= np.sum(weights)", "weights", True, ["C15.d"]),
        # a copy of the column sums is the column sums; a copy of something else is not
        Variant("d-benign-weights-copy-of-column-sums", "benign", replace_stmt(cl, "GaussianMixture._m_step", "weights = np.sum(weighted_resp, axis=0)", "resp_totals = np.sum(weighted_resp, axis=0)\nweights = resp_totals.copy()"), quick=True),
        Variant("d-benign-weights-nparray-of-column-sums", "benign", replace_stmt(cl, "GaussianMixture._m_step", "weights = np.sum(weighted_resp, axis=0)", "weights = np.array(np.sum(weighted_resp, axis=0), dtype=float)")),
        Variant("d-weights-copy-of-row-sums", "bad", replace_stmt(cl, "GaussianMixture._m_step", "weights = np.sum(weighted_resp, axis=0)", "resp_totals = np.sum(weighted_resp, axis=1)\nweights = resp_totals.copy()"), ["C15.d"], quick=True),
        Variant("d-weights-copy-of-unweighted-resp", "bad", replace_stmt(cl, "GaussianMixture._m_step", "weights = np.sum(weighted_resp, axis=0)", "weights = responsibilities[0].copy()"), ["C15.d"]),
        Variant("e-drop-weight-normalisation", "bad", delete_stmt(cl, "GaussianMixture.fit", "sample_weight = sample_weight / np.sum(sample_weight)"), ["C15.e"], quick=True),
        Variant("j-fit-centres-callers-data-in-place", "bad", insert_after(cl, f"{H}.fit", "n_samples, n_features = X.shape", "X -= np.average(X, axis=0)"), ["C15.j"], quick=True),
        Variant("j-benign-fit-centres-a-copy", "benign", insert_after(cl, f"{H}.fit", "n_samples, n_features = X.shape", "Xc = X - np.average(X, axis=0)")),
        Variant("k-unweighted-bandwidth", "bad", replace_expr(cl, "GaussianMixture._initialize_parameters", "np.exp(-0.5 * distances)", "np.exp(-0.5 * distances / (np.mean(np.var(X, axis=0)) + self.reg_covar))"), ["C15.k"], quick=True),
        Variant("k-benign-weighted-bandwidth", "benign", replace_expr(cl, "GaussianMixture._initialize_parameters", "np.exp(-0.5 * distances)", "np.exp(-0.5 * distances / 1.0)")),
        Variant("h-diag-density-without-jitter", "bad", replace_stmt(cl, "GaussianMixture.predict", "cov = self._get_covariance(self.covariances_, k)", "cov = self._get_covariance(self.covariances_, k)\nif self.covariance_type == 'diag':\n    v = self.covariances_[k]\n    log_probabilities[:, k] = np.log(self.weights_[k] + 1e-10) - 0.5 * np.sum((X - self.means_[k]) ** 2 / v + np.log(2 * np.pi * v), axis=1)\n    continue"), ["C15.h"], quick=True),
        Variant("h-density-on-bare-covariance", "bad", replace_expr(cl, "GaussianMixture._compute_lower_bound", "cov + np.eye(cov.shape[0]) * self.reg_covar", "cov"), ["C15.h"]),
        Variant("i-merge-duplicates-fancy-add", "bad", replace_stmt(cl, "GaussianMixture.fit", "sample_weight = sample_weight / np.sum(sample_weight)", "sample_weight = sample_weight / np.sum(sample_weight)\nrows, inverse = np.unique(X, axis=0, return_inverse=True)\nmerged = np.zeros(len(rows))\nmerged[inverse] += sample_weight\nX, sample_weight = rows, merged"), ["C15.i"], quick=True),
        Variant("i-benign-merge-duplicates-add-at", "benign", replace_stmt(cl, "GaussianMixture.fit", "sample_weight = sample_weight / np.sum(sample_weight)", "sample_weight = sample_weight / np.sum(sample_weight)\nrows, inverse = np.unique(X, axis=0, return_inverse=True)\nmerged = np.zeros(len(rows))\nnp.add.at(merged, inverse, sample_weight)\nX, sample_weight = rows, merged")),
        Variant("benign-rename-child", "benign", alpha_rename(cl, f"{H}.fit", "child1", "left"), quick=True),
        Variant("benign-rename-iteration", "benign", alpha_rename(cl, f"{H}.fit", "iteration", "n_iter")),
    ]
