"""Interprocedural value-origin tracing (A6 provenance): where can the value of
an expression come from?  Follows locals (reaching definitions), parameters
(all call sites, with defaults), `self.attr` (all assignments in the class
hierarchy), dataclass fields (constructor keywords), and classifies the roots.

Origin kinds:
  none        the constant None
  literal     any other constant written in the library source
  user        a parameter of a public entry point (no internal caller) or a
              dataclass field filled from one
  checkpoint  a value read out of a loaded (dill/pickle) object
  call        result of a call that is not followed (text of the callee)
  unknown     anything else
"""
from __future__ import annotations

import ast
from dataclasses import dataclass, field
from typing import List, Optional, Set, Tuple

from .dataflow import flow_of, select_path
from .engine import Context
from .model import ClassInfo, FuncInfo, dotted
from .util import call_arg


@dataclass
class Origin:
    kind: str
    detail: str
    func: Optional[FuncInfo] = None
    node: Optional[ast.AST] = None
    chain: Tuple[str, ...] = ()

    def loc(self) -> str:
        return self.func.loc(self.node) if self.func is not None and self.node is not None else "?"

    def __repr__(self):
        return f"{self.kind}:{self.detail}@{self.loc()}"


TRANSPARENT = {"int", "float", "abs", "builtins.int", "builtins.float", "numpy.int64", "hash"}


class Tracer:
    def __init__(self, ctx: Context, max_depth: int = 14, scope: Optional[Set[str]] = None):
        """scope: when given, parameters are traced only through call sites that
        lie in functions of this set (e.g. the per-iteration pipeline)."""
        self.ctx = ctx
        self.max_depth = max_depth
        self.scope = scope

    def origins(self, fi: FuncInfo, e: ast.expr, at=None, chain: Tuple[str, ...] = (), depth: int = 0, seen: Optional[Set] = None) -> List[Origin]:
        seen = seen if seen is not None else set()
        key = (fi.qualname, id(e))
        if key in seen or depth > self.max_depth:
            return []
        seen.add(key)  # recursion stack (removed on exit), not a global visited set
        try:
            return self._origins(fi, e, at, chain, depth, seen)
        finally:
            seen.discard(key)

    def _origins(self, fi: FuncInfo, e: ast.expr, at, chain, depth, seen) -> List[Origin]:
        rec = lambda f, x, a, ch=chain: self.origins(f, x, a, ch, depth + 1, seen)  # noqa: E731
        if isinstance(e, ast.Constant):
            if e.value is None:
                return [Origin("none", "None", fi, e, chain)]
            return [Origin("literal", repr(e.value), fi, e, chain)]
        if isinstance(e, ast.UnaryOp) and isinstance(e.operand, ast.Constant):
            return [Origin("literal", ast.unparse(e), fi, e, chain)]
        if isinstance(e, ast.IfExp):
            return rec(fi, e.body, at) + rec(fi, e.orelse, at)
        if isinstance(e, ast.BoolOp):
            out = []
            for v in e.values:
                out += rec(fi, v, at)
            return out
        if isinstance(e, ast.Name):
            flow = flow_of(fi.node)
            if at is None:
                at = flow.node_containing(e)
            ds = flow.reaching(at, e.id) if at is not None else []
            if not ds:
                # module constant?
                c = fi.module.constants.get(e.id)
                if c is not None:
                    return rec(fi, c, None)
                # closure variable of the enclosing function
                if fi.parent is not None:
                    pf = fi.parent
                    pflow = flow_of(pf.node)
                    defnode = next((n for n in pflow.cfg.stmt_nodes() if n.stmt is fi.node), None)
                    if defnode is not None:
                        return self.origins(pf, ast.Name(id=e.id, ctx=ast.Load()), defnode, chain, depth + 1, seen)
                return [Origin("unknown", f"global {e.id}", fi, e, chain)]
            out = []
            for d in ds:
                if d.kind == "param":
                    out += self._param_origins(fi, d.name, chain, depth, seen)
                elif d.kind == "assign" and d.value is not None:
                    v = select_path(d.value, d.path) if d.path else d.value
                    if v is None:
                        out.append(Origin("call", f"component of {ast.unparse(d.value)[:40]}", fi, d.value, chain))
                    else:
                        out += rec(fi, v, d.node)
                elif d.kind == "for" and isinstance(d.value, ast.Call) and isinstance(d.value.func, ast.Name) and d.value.func.id in ("range", "enumerate") and not d.path:
                    # a counter: 0, 1, 2, ... whatever the bound is -- the values are constants of the program
                    out.append(Origin("literal", "0" if d.value.func.id == "range" and len(d.value.args) == 1 else "1", fi, d.stmt, chain))
                elif d.kind == "aug" and isinstance(d.value, ast.AugAssign) and isinstance(d.value.target, ast.Name) and depth < 6:
                    # x op= e : whatever x was before, combined with e
                    out += rec(fi, d.value.value, d.node)
                    flow_ = flow_of(fi.node)
                    for dl in flow_.defs_at.values():
                        for d2 in dl:
                            if d2.name == d.name and d2.kind == "assign" and d2.value is not None and not d2.path:
                                out += rec(fi, d2.value, d2.node)
                            elif d2.name == d.name and d2.kind == "param":
                                out += self._param_origins(fi, d.name, chain, depth, seen)
                elif d.kind == "for":
                    out.append(Origin("unknown", f"loop variable {d.name}", fi, d.stmt, chain))
                else:
                    out.append(Origin("unknown", f"{d.kind} {d.name}", fi, e, chain))
            return out
        if isinstance(e, ast.Attribute):
            base_types = self.ctx.res.expr_types(fi, e.value)
            out = []
            for bt in base_types:
                if isinstance(bt, ClassInfo):
                    out += self._attr_origins(bt, e.attr, fi, e, chain, depth, seen)
            if out:
                return out
            return [Origin("unknown", f"attribute {dotted(e) or e.attr}", fi, e, chain)]
        if isinstance(e, ast.Subscript):
            base = rec(fi, e.value, at)
            if any(o.kind in ("checkpoint",) or (o.kind == "call" and o.detail.split("(")[0].endswith(("dill.load", "pickle.load", "load"))) for o in base):
                return [Origin("checkpoint", ast.unparse(e)[:60], fi, e, chain)]
            return [Origin(o.kind if o.kind in ("user", "checkpoint") else "unknown", f"element of {o.detail}", fi, e, chain) for o in base] or [Origin("unknown", ast.unparse(e)[:40], fi, e, chain)]
        if isinstance(e, ast.Call):
            name = self.ctx.res.external_name(fi, e) or dotted(e.func)
            if name in TRANSPARENT and e.args:
                return rec(fi, e.args[0], at)
            if name in ("dill.load", "pickle.load", "dill.loads", "pickle.loads"):
                return [Origin("checkpoint", name, fi, e, chain)]
            if name in ("getattr", "builtins.getattr") and len(e.args) >= 2 and isinstance(e.args[1], ast.Constant):
                fake = ast.Attribute(value=e.args[0], attr=e.args[1].value, ctx=ast.Load())
                ast.copy_location(fake, e)
                o = rec(fi, fake, at)
                if len(e.args) > 2:
                    o += rec(fi, e.args[2], at)
                return o
            if isinstance(e.func, ast.Attribute) and e.func.attr == "get" and e.args:
                base = rec(fi, e.func.value, at)
                if any(o.kind == "checkpoint" for o in base):
                    return [Origin("checkpoint", ast.unparse(e)[:60], fi, e, chain)]
            return [Origin("call", name or ast.unparse(e.func)[:40], fi, e, chain)]
        if isinstance(e, (ast.BinOp,)):
            return rec(fi, e.left, at) + rec(fi, e.right, at)
        return [Origin("unknown", type(e).__name__, fi, e, chain)]

    # ------------------------------------------------------------------ params
    def _param_origins(self, fi: FuncInfo, pname: str, chain, depth, seen) -> List[Origin]:
        callers = self.ctx.cg.callers.get(fi.qualname, [])
        if self.scope is not None:
            callers = [(c, call) for (c, call) in callers if c.qualname in self.scope]
        # dataclass-generated constructors: handled in _attr_origins
        if not callers:
            if _is_public(fi):
                return [Origin("user", f"parameter {pname} of {fi.short}", fi, fi.node, chain)] + self._public_default(fi, pname, chain, depth, seen)
            d = fi.param_default(pname)
            if d is not None:
                return self.origins(fi, d, None, chain, depth + 1, seen)
            return [Origin("user", f"parameter {pname} of {fi.short} (no internal caller)", fi, fi.node, chain)]
        out: List[Origin] = []
        params = [p for p in fi.params]
        offset = 1 if (fi.cls is not None and not fi.is_staticmethod and params and params[0] in ("self", "cls")) else 0
        idx = params.index(pname) - offset if pname in params else None
        for (caller, call) in callers:
            arg = None
            has_star = any(isinstance(a, ast.Starred) for a in call.args) or any(k.arg is None for k in call.keywords)
            if idx is not None:
                arg = call_arg(call, idx, pname)
            if arg is None:
                if has_star:
                    # forwarded *args/**kwargs: follow the forwarding function's own callers
                    out += self._forwarded(caller, fi, pname, chain + (f"{caller.short}->{fi.short}",), depth, seen)
                    continue
                d = fi.param_default(pname)
                if d is not None:
                    out += self.origins(fi, d, None, chain + (f"{caller.short}->{fi.short} (default)",), depth + 1, seen)
                continue
            at = flow_of(caller.node).node_containing(call)
            out += self.origins(caller, arg, at, chain + (f"{caller.short}->{fi.short}",), depth + 1, seen)
        if _is_public(fi) and self.scope is None:
            out.append(Origin("user", f"parameter {pname} of public {fi.short}", fi, fi.node, chain))
            out += self._public_default(fi, pname, chain, depth, seen)
        return out

    def _public_default(self, fi: FuncInfo, pname: str, chain, depth, seen) -> List[Origin]:
        """What the library itself supplies when the user omits a public parameter: the declared default."""
        d = fi.param_default(pname)
        if d is None:
            return []
        return self.origins(fi, d, None, chain + (f"default of {fi.short}({pname})",), depth + 1, seen)

    def _forwarded(self, caller: FuncInfo, callee: FuncInfo, pname: str, chain, depth, seen) -> List[Origin]:
        """super().__init__(*args, **kwargs): the value comes from caller's own callers."""
        out = []
        for (c2, call2) in self.ctx.cg.callers.get(caller.qualname, []):
            params = callee.params
            offset = 1 if params and params[0] in ("self", "cls") else 0
            idx = params.index(pname) - offset if pname in params else None
            arg = call_arg(call2, idx, pname) if idx is not None else None
            if arg is None:
                d = callee.param_default(pname)
                if d is not None:
                    out += self.origins(callee, d, None, chain, depth + 1, seen)
                continue
            at = flow_of(c2.node).node_containing(call2)
            out += self.origins(c2, arg, at, chain + (f"{c2.short}->{caller.short}",), depth + 1, seen)
        return out

    # ------------------------------------------------------------------- attrs
    def _attr_origins(self, ci: ClassInfo, attr: str, fi: FuncInfo, e: ast.AST, chain, depth, seen) -> List[Origin]:
        out: List[Origin] = []
        # dataclass field: constructor keyword at every constructor call site
        if ci.is_dataclass and attr in ci.fields():
            sites = []
            for f2 in self.ctx.prog.functions.values():
                for (call, tg) in self.ctx.cg.sites.get(f2.qualname, []):
                    if ci in tg:
                        sites.append((f2, call))
            fields = list(ci.fields())
            for (f2, call) in sites:
                arg = call_arg(call, fields.index(attr), attr)
                at = flow_of(f2.node).node_containing(call)
                if arg is None:
                    dflt = ci.fields()[attr].value
                    if dflt is not None:
                        out += self.origins(f2, dflt, None, chain + (f"{ci.name}.{attr} default",), depth + 1, seen)
                    continue
                for o in self.origins(f2, arg, at, chain + (f"{ci.name}({attr}=...) in {f2.short}",), depth + 1, seen):
                    out.append(o)
            # __post_init__ overrides via object.__setattr__(self, "attr", v)
            post = ci.methods.get("__post_init__")
            if post is not None:
                for c in ast.walk(post.node):
                    if isinstance(c, ast.Call) and dotted(c.func) == "object.__setattr__" and len(c.args) == 3 and isinstance(c.args[1], ast.Constant) and c.args[1].value == attr:
                        out += self.origins(post, c.args[2], None, chain + (f"{ci.name}.__post_init__",), depth + 1, seen)
            if not sites:
                out.append(Origin("user", f"field {ci.name}.{attr}", fi, e, chain))
            return out
        assigns = self.ctx.res.attr_assignments(ci, attr)
        # also assignments in subclasses (shared instances)
        for sc in self.ctx.prog.subclasses(ci):
            assigns = assigns + [a for a in self.ctx.res._attr_values.get((sc.qualname, attr), []) if a not in assigns]
        for (m, stmt, val) in assigns:
            if val is None or isinstance(val, ast.AugAssign):
                out.append(Origin("unknown", f"{ci.name}.{attr} updated in {m.short}", m, stmt, chain))
                continue
            at = flow_of(m.node).node_containing(stmt)
            out += self.origins(m, val, at, chain + (f"{ci.name}.{attr} set in {m.short}",), depth + 1, seen)
        if not assigns:
            cc = ci.class_constants().get(attr)
            if cc is not None:
                out += self.origins(fi, cc, None, chain, depth + 1, seen)
            else:
                out.append(Origin("unknown", f"{ci.name}.{attr} never assigned", fi, e, chain))
        return out


def _is_public(fi: FuncInfo) -> bool:
    """Public API entry: the facade class Sampler's methods and public module-level
    functions / public methods of public classes."""
    if fi.parent is not None:
        return False
    name = fi.name
    if name.startswith("_") and name != "__init__":
        return False
    if fi.cls is not None and fi.cls.name.startswith("_"):
        return False
    return True
