"""A7 (per-coordinate part): covariance typing under  x_i -> d_i * x_i  (an
independent positive scale per coordinate, D = diag(d)).

Every array value gets, per axis, either `None` (an axis that does not run over
coordinates: samples, iterations, ...) or a rational exponent k: along that
axis entry i scales like d_i**k.  A scalar that does not change is `()`.
Examples for data of shape (dim, n):  data (1, None); the location (1,);
a covariance (1, 1); its inverse (-1, -1); a Mahalanobis distance ().

A function is equivariant under per-coordinate scaling when its results have
the expected types and no Conflict occurs.  Conflicts are exactly the places
where entries with different units are mixed: a sum over a coordinate axis of
non-zero exponent (trace of a covariance, mean over coordinates), the sum of
values of different exponents (covariance + c * identity), a transcendental
function or a comparison with a constant applied to a scaled quantity.
Unknown operations give Unknown (never a violation by themselves).
"""
from __future__ import annotations

import ast
from fractions import Fraction
from typing import Callable, Dict, List, Optional, Tuple

from .model import dotted, ufunc_as_operator

Axis = Optional[Fraction]


class CT:
    __slots__ = ("kind", "axes", "why", "node", "items", "fn")

    def __init__(self, kind: str, axes: Tuple[Axis, ...] = (), why: str = "", node=None, items=None, fn=None):
        self.kind = kind  # 'arr' | 'unknown' | 'conflict' | 'tuple' | 'func'
        self.axes = tuple(axes)
        self.why = why
        self.node = node
        self.items = items
        self.fn = fn

    def __repr__(self):
        if self.kind == "arr":
            return "Co(" + ",".join("-" if a is None else str(a) for a in self.axes) + ")"
        if self.kind == "tuple":
            return f"Tuple{self.items!r}"
        return f"{self.kind.capitalize()}({self.why})"

    @property
    def scaled(self) -> bool:
        return self.kind == "arr" and any(a is not None and a != 0 for a in self.axes)


INVC = CT("arr", ())


def co(*axes) -> CT:
    return CT("arr", tuple(None if a is None else Fraction(a) for a in axes))


def _eqz(a: Axis) -> bool:
    return a is None or a == 0


class CoordInterp:
    def __init__(self, ext_name: Callable[[ast.Call], Optional[str]], depth: int = 0, internal=None, summaries=None):
        """internal(call) -> (FunctionDef, ext_name for it, skip_first_param) for library functions to inline;
        summaries: {callee name: function(interp, call, args) -> CT}."""
        self.ext_name = ext_name
        self.conflicts: List[CT] = []
        self.unknowns: List[CT] = []
        self.depth = depth
        self.internal = internal
        self.summaries = summaries or {}
        self.assume = None  # optional: test expression -> True / False / None (branch taken under the typing assumption)

    # ------------------------------------------------------------------ driver
    def run(self, fn: ast.FunctionDef, arg_types: Dict[str, CT], closure: Optional[Dict[str, CT]] = None) -> List[Tuple[ast.Return, CT]]:
        env: Dict[str, CT] = dict(closure or {})
        for a in fn.args.posonlyargs + fn.args.args + fn.args.kwonlyargs:
            env[a.arg] = arg_types.get(a.arg, INVC)
        rets: List[Tuple[ast.Return, CT]] = []
        self._block(fn.body, env, rets)  # loop bodies are iterated twice inside _stmt
        return rets

    def _block(self, stmts, env, rets):
        for s in stmts:
            self._stmt(s, env, rets)

    def _stmt(self, s, env, rets):
        if isinstance(s, (ast.FunctionDef,)):
            env[s.name] = CT("func", fn=(s, env))
        elif isinstance(s, ast.Assign):
            v = self.eval(s.value, env)
            for t in s.targets:
                self._bind(t, v, env)
        elif isinstance(s, ast.AnnAssign) and s.value is not None:
            self._bind(s.target, self.eval(s.value, env), env)
        elif isinstance(s, ast.AugAssign):
            fake = ast.BinOp(left=s.target, op=s.op, right=s.value)
            ast.copy_location(fake, s)
            self._bind(s.target, self.eval(fake, env), env)
        elif isinstance(s, ast.Return):
            rets.append((s, self.eval(s.value, env) if s.value is not None else INVC))
        elif isinstance(s, ast.If):
            self.eval(s.test, env)
            tv = self.assume(s.test) if self.assume is not None else None
            if tv is True:
                self._block(s.body, env, rets)
                return
            if tv is False:
                self._block(s.orelse, env, rets)
                return
            e1, e2 = dict(env), dict(env)
            self._block(s.body, e1, rets)
            self._block(s.orelse, e2, rets)
            for k in set(e1) | set(e2):
                env[k] = self._join(e1.get(k), e2.get(k))
        elif isinstance(s, (ast.While, ast.For)):
            if isinstance(s, ast.While):
                self.eval(s.test, env)
            else:
                it = self.eval(s.iter, env)
                self._bind(s.target, self._drop_axis(it, 0, s.iter) if it.kind == "arr" and it.axes else it, env)
            before = dict(env)
            self._block(s.body, env, rets)
            self._block(s.body, env, rets)
            for k in set(env) | set(before):
                env[k] = self._join(before.get(k), env.get(k))
        elif isinstance(s, ast.Try):
            self._block(s.body, env, rets)
            for h in s.handlers:
                self._block(h.body, dict(env), rets)
            self._block(s.finalbody, env, rets)
        elif isinstance(s, ast.With):
            self._block(s.body, env, rets)
        elif isinstance(s, ast.Expr):
            self.eval(s.value, env)

    def _join(self, a: Optional[CT], b: Optional[CT]) -> CT:
        if a is None:
            return b
        if b is None:
            return a
        if a.kind == "arr" and b.kind == "arr":
            if a.axes == b.axes:
                return a
            # scalars of equal meaning spelled with / without a 0 exponent
            if len(a.axes) == len(b.axes) and all((_eqz(x) and _eqz(y)) or x == y for x, y in zip(a.axes, b.axes)):
                return a
            if not a.scaled and not b.scaled:
                return a if len(a.axes) >= len(b.axes) else b
            return CT("unknown", why=f"{a!r} on one path, {b!r} on another")
        if a.kind == "tuple" and b.kind == "tuple" and len(a.items) == len(b.items):
            return CT("tuple", items=[self._join(x, y) for x, y in zip(a.items, b.items)])
        if a.kind == "conflict":
            return a
        if b.kind == "conflict":
            return b
        if a.kind == "func":
            return a
        return a if a.kind == "unknown" else b

    def _bind(self, t, v: CT, env):
        if isinstance(t, ast.Name):
            env[t.id] = v
        elif isinstance(t, (ast.Tuple, ast.List)):
            for i, e in enumerate(t.elts):
                if v.kind == "tuple" and i < len(v.items):
                    self._bind(e, v.items[i], env)
                elif v.kind == "arr" and not v.scaled:
                    self._bind(e, INVC, env)
                else:
                    self._bind(e, CT("unknown", why="unpacking"), env)
        elif isinstance(t, ast.Subscript) and isinstance(t.value, ast.Name):
            pass

    def _conflict(self, why, node) -> CT:
        t = CT("conflict", why=why, node=node)
        self.conflicts.append(t)
        return t

    def _unknown(self, why, node) -> CT:
        t = CT("unknown", why=why, node=node)
        self.unknowns.append(t)
        return t

    # ------------------------------------------------------------------ helpers
    def _drop_axis(self, a: CT, axis: int, node, what: str = "reduction") -> CT:
        n = len(a.axes)
        if axis < 0:
            axis += n
        if not (0 <= axis < n):
            return self._unknown(f"axis {axis} of {a!r}", node)
        k = a.axes[axis]
        if not _eqz(k):
            return self._conflict(f"{what} over a coordinate axis whose entries scale like d_i**{k}: entries with different units are added", node)
        return CT("arr", a.axes[:axis] + a.axes[axis + 1:])

    def _axis_arg(self, e: ast.Call, pos: int):
        for k in e.keywords:
            if k.arg == "axis":
                return k.value
        return e.args[pos] if len(e.args) > pos else None

    def _reduce(self, e: ast.Call, a: CT, pos: int = 1, scale: int = 1) -> CT:
        if a.kind != "arr":
            return a
        keep = any(k.arg == "keepdims" and isinstance(k.value, ast.Constant) and k.value.value is True for k in e.keywords)
        if keep:
            out = self._reduce_nokeep(e, a, pos, scale)
            if out.kind != "arr":
                return out
            ax = self._axis_arg(e, pos)
            if ax is None or (isinstance(ax, ast.Constant) and ax.value is None):
                return CT("arr", (None,) * len(a.axes))
            axv = ax.value if isinstance(ax, ast.Constant) else -ax.operand.value
            if axv < 0:
                axv += len(a.axes)
            return CT("arr", out.axes[:axv] + (None,) + out.axes[axv:])
        return self._reduce_nokeep(e, a, pos, scale)

    def _reduce_nokeep(self, e: ast.Call, a: CT, pos: int = 1, scale: int = 1) -> CT:
        ax = self._axis_arg(e, pos)
        if ax is None or (isinstance(ax, ast.Constant) and ax.value is None):
            out = a
            for _ in range(len(a.axes)):
                out = self._drop_axis(out, 0, e)
                if out.kind != "arr":
                    return out
            return out
        if isinstance(ax, ast.UnaryOp) and isinstance(ax.op, ast.USub) and isinstance(ax.operand, ast.Constant):
            axv = -ax.operand.value
        elif isinstance(ax, ast.Constant) and isinstance(ax.value, int):
            axv = ax.value
        else:
            return self._unknown("non-literal axis", e)
        out = self._drop_axis(a, axv, e)
        if out.kind == "arr" and scale != 1:
            out = CT("arr", tuple(None if x is None else x * scale for x in out.axes))
        return out

    def _elementwise(self, l: CT, r: CT, op, node) -> CT:
        for t in (l, r):
            if t.kind in ("conflict", "unknown"):
                return t
        if l.kind != "arr" or r.kind != "arr":
            return self._unknown("non-array operand", node)
        n = max(len(l.axes), len(r.axes))
        la = (("missing",) * (n - len(l.axes))) + l.axes
        ra = (("missing",) * (n - len(r.axes))) + r.axes
        out: List[Axis] = []
        for a, b in zip(la, ra):
            am, bm = a == "missing", b == "missing"
            a2 = None if am else a
            b2 = None if bm else b
            if isinstance(op, (ast.Mult,)):
                out.append(None if (a2 is None and b2 is None) else (a2 or Fraction(0)) + (b2 or Fraction(0)))
            elif isinstance(op, (ast.Div, ast.FloorDiv)):
                out.append(None if (a2 is None and b2 is None) else (a2 or Fraction(0)) - (b2 or Fraction(0)))
            elif isinstance(op, (ast.Add, ast.Sub, ast.Mod)):
                if _eqz(a2) and _eqz(b2):
                    out.append(a2 if a2 is not None else b2)
                elif a2 is not None and b2 is not None and a2 == b2:
                    out.append(a2)
                else:
                    return self._conflict(f"sum of a value that scales like d_i**{a2 if not _eqz(a2) else b2} per coordinate and one that "
                                          f"{'does not scale' if _eqz(a2) or _eqz(b2) else 'scales like d_i**' + str(b2)}", node)
            else:
                return self._unknown(type(op).__name__, node)
        return CT("arr", tuple(out))

    def _matmul(self, l: CT, r: CT, node) -> CT:
        for t in (l, r):
            if t.kind in ("conflict", "unknown"):
                return t
        if l.kind != "arr" or r.kind != "arr" or not l.axes or not r.axes:
            return self._elementwise(l, r, ast.Mult(), node)
        a, b = l.axes[-1], (r.axes[0] if len(r.axes) <= 2 else r.axes[-2])
        s = (a or Fraction(0)) + (b or Fraction(0))
        if (a is not None or b is not None) and s != 0:
            return self._conflict(f"contraction over a coordinate axis whose terms scale like d_i**{s}: entries with different units are added", node)
        rest_r = r.axes[1:] if len(r.axes) <= 2 else r.axes[:-2] + r.axes[-1:]
        return CT("arr", l.axes[:-1] + rest_r)

    # ------------------------------------------------------------------ expressions
    def eval(self, e: ast.expr, env: Dict[str, CT]) -> CT:
        if e is None or isinstance(e, ast.Constant):
            return INVC
        if isinstance(e, ast.Name):
            return env.get(e.id, INVC)
        if isinstance(e, ast.Attribute):
            if e.attr in ("shape", "size", "ndim", "dtype", "inf", "pi", "nan", "newaxis"):
                return INVC
            b = self.eval(e.value, env)
            if e.attr == "T":
                return CT("arr", tuple(reversed(b.axes))) if b.kind == "arr" else b
            d = dotted(e)
            if d.startswith(("np.", "numpy.", "self.")):
                return INVC
            return b
        if isinstance(e, ast.Tuple):
            return CT("tuple", items=[self.eval(x, env) for x in e.elts])
        if isinstance(e, ast.List):
            ts = [self.eval(x, env) for x in e.elts]
            if not ts:
                return INVC
            out = ts[0]
            for t in ts[1:]:
                out = self._join(out, t)
            if out.kind == "arr":
                return CT("arr", (None,) + out.axes)
            return out
        if isinstance(e, ast.Subscript):
            b = self.eval(e.value, env)
            if b.kind == "tuple" and isinstance(e.slice, ast.Constant) and isinstance(e.slice.value, int) and e.slice.value < len(b.items):
                return b.items[e.slice.value]
            if b.kind != "arr":
                return b
            idx = e.slice.elts if isinstance(e.slice, ast.Tuple) else [e.slice]
            axes = list(b.axes)
            out: List[Axis] = []
            pos = 0
            for i in idx:
                if isinstance(i, ast.Slice):
                    if pos < len(axes):
                        out.append(axes[pos])
                    pos += 1
                elif isinstance(i, ast.Constant) and i.value is None or (isinstance(i, ast.Attribute) and i.attr == "newaxis"):
                    out.append(None)
                elif isinstance(i, ast.Constant) and i.value is Ellipsis:
                    rest = len(idx) - idx.index(i) - 1
                    while len(axes) - pos > rest:
                        out.append(axes[pos])
                        pos += 1
                else:
                    it = self.eval(i, env)
                    if it.scaled:
                        return self._conflict("an index depends on the scale of the coordinates", e)
                    if pos < len(axes) and not _eqz(axes[pos]) and isinstance(i, ast.Constant):
                        return self._unknown("a single coordinate is picked out", e)
                    if pos < len(axes) and it.kind == "arr" and it.axes:
                        out.append(axes[pos])  # fancy / mask indexing keeps the axis
                    pos += 1
            out += axes[pos:]
            return CT("arr", tuple(out))
        if isinstance(e, ast.UnaryOp):
            return self.eval(e.operand, env)
        if isinstance(e, ast.BoolOp):
            for v in e.values:
                self.eval(v, env)
            return INVC
        if isinstance(e, ast.Compare):
            ts = [self.eval(e.left, env)] + [self.eval(c, env) for c in e.comparators]
            if all(isinstance(o, (ast.Is, ast.IsNot, ast.In, ast.NotIn)) for o in e.ops):
                return INVC
            for t in ts:
                if t.kind == "conflict":
                    return t
            sc = [t for t in ts if t.scaled]
            if sc and len(sc) != len(ts):
                return self._conflict("comparison of a quantity that scales with the coordinates with one that does not: the outcome depends on the units", e)
            return INVC
        if isinstance(e, ast.IfExp):
            self.eval(e.test, env)
            return self._join(self.eval(e.body, env), self.eval(e.orelse, env))
        if isinstance(e, ast.BinOp):
            l, r = self.eval(e.left, env), self.eval(e.right, env)
            if isinstance(e.op, ast.MatMult):
                return self._matmul(l, r, e)
            if isinstance(e.op, ast.Pow):
                if l.kind != "arr":
                    return l
                if isinstance(e.right, ast.Constant) and isinstance(e.right.value, (int, float)):
                    p = Fraction(e.right.value).limit_denominator(1000)
                    return CT("arr", tuple(None if a is None else a * p for a in l.axes))
                if not l.scaled:
                    return l
                return self._unknown("non-constant exponent", e)
            return self._elementwise(l, r, e.op, e)
        if isinstance(e, ast.Call):
            op_ = ufunc_as_operator(self.ext_name(e), e)
            if op_ is not None:
                return self.eval(op_, env)
            return self._call(e, env)
        if isinstance(e, (ast.ListComp, ast.GeneratorExp)):
            env2 = dict(env)
            for g in e.generators:
                it = self.eval(g.iter, env2)
                self._bind(g.target, self._drop_axis(it, 0, g.iter) if it.kind == "arr" and it.axes else it, env2)
            el = self.eval(e.elt, env2)
            return CT("arr", (None,) + el.axes) if el.kind == "arr" else el
        if isinstance(e, ast.JoinedStr):
            return INVC
        return self._unknown(type(e).__name__, e)

    def _call(self, e: ast.Call, env) -> CT:
        name = self.ext_name(e) or dotted(e.func)
        args = [self.eval(a, env) for a in e.args]
        for k in e.keywords:
            self.eval(k.value, env)
        a0 = args[0] if args else INVC
        # nested / local functions: inline with the defining environment
        if isinstance(e.func, ast.Name) and env.get(e.func.id) is not None and env[e.func.id].kind == "func" and self.depth < 5:
            fn, cenv = env[e.func.id].fn
            params = [a.arg for a in fn.args.posonlyargs + fn.args.args]
            binding = {p: a for p, a in zip(params, args)}
            for k in e.keywords:
                if k.arg:
                    binding[k.arg] = self.eval(k.value, env)
            sub = CoordInterp(self.ext_name, self.depth + 1, internal=self.internal, summaries=self.summaries)
            rets = sub.run(fn, binding, closure={**cenv, **{k: v for k, v in env.items() if k not in cenv}})
            self.conflicts += sub.conflicts
            self.unknowns += sub.unknowns
            out = None
            for (_, t) in rets:
                out = t if out is None else self._join(out, t)
            return out if out is not None else INVC
        last = dotted(e.func).split(".")[-1] if dotted(e.func) else ""
        if last in self.summaries:
            return self.summaries[last](self, e, args)
        if self.internal is not None and self.depth < 5:
            tgt = self.internal(e)
            if tgt is not None:
                fn, ext2, skip = tgt
                params = [a.arg for a in fn.args.posonlyargs + fn.args.args]
                if skip and params:
                    params = params[1:]
                binding = {p: a for p, a in zip(params, args)}
                for k in e.keywords:
                    if k.arg:
                        binding[k.arg] = self.eval(k.value, env)
                sub = CoordInterp(ext2, self.depth + 1, internal=self.internal, summaries=self.summaries)
                rets = sub.run(fn, binding)
                self.conflicts += sub.conflicts
                self.unknowns += sub.unknowns
                out = None
                for (_, t) in rets:
                    out = t if out is None else self._join(out, t)
                return out if out is not None else INVC
        # methods of arrays
        if isinstance(e.func, ast.Attribute) and not name.startswith(("numpy.", "builtins.", "scipy.", "math.")):
            base = self.eval(e.func.value, env)
            m = e.func.attr
            if base.kind == "arr":
                if m in ("sum", "mean", "max", "min", "median", "prod"):
                    return self._reduce(e, base, 0)
                if m in ("var",):
                    return self._reduce(e, base, 0, 2)
                if m in ("copy", "astype", "squeeze"):
                    return base
                if m == "transpose":
                    return CT("arr", tuple(reversed(base.axes)))
                if m == "dot" and args:
                    return self._matmul(base, args[0], e)
                if m == "reshape" and base.scaled and len(base.axes) == 1:
                    # a vector only changes its orientation: v.reshape(-1, 1) is a column, v.reshape(1, -1) a row
                    shp = list(e.args[0].elts) if len(e.args) == 1 and isinstance(e.args[0], (ast.Tuple, ast.List)) else list(e.args)

                    def lit(x):
                        if isinstance(x, ast.Constant) and type(x.value) is int:
                            return x.value
                        if isinstance(x, ast.UnaryOp) and isinstance(x.op, ast.USub) and isinstance(x.operand, ast.Constant) and type(x.operand.value) is int:
                            return -x.operand.value
                        return None

                    vals = [lit(x) for x in shp]
                    if vals and vals.count(-1) == 1 and all(v in (1, -1) for v in vals):
                        return CT("arr", tuple(base.axes[0] if v == -1 else None for v in vals))
                if m in ("reshape", "ravel", "flatten"):
                    if m != "reshape" and len(base.axes) == 1:
                        return base
                    return base if not base.scaled else self._unknown(f".{m}() of a coordinate-typed array", e)
        if name in ("numpy.sum", "numpy.mean", "numpy.median", "numpy.max", "numpy.min", "numpy.amax", "numpy.amin", "numpy.nansum", "numpy.nanmean", "numpy.average", "numpy.percentile", "numpy.quantile"):
            return self._reduce(e, a0, 2 if name in ("numpy.percentile", "numpy.quantile") else 1)
        if name in ("numpy.var", "numpy.nanvar"):
            return self._reduce(e, a0, 1, 2)
        if name in ("numpy.std",):
            return self._reduce(e, a0, 1, 1)
        if name == "builtins.sum":
            return self._drop_axis(a0, 0, e) if a0.kind == "arr" and a0.axes else a0
        if name in ("numpy.cov",):
            if a0.kind != "arr" or len(a0.axes) != 2:
                return self._unknown("cov of a non-matrix", e)
            rowvar = next((k.value for k in e.keywords if k.arg == "rowvar"), None)
            rv = not (isinstance(rowvar, ast.Constant) and rowvar.value is False)
            k = a0.axes[0] if rv else a0.axes[1]
            other = a0.axes[1] if rv else a0.axes[0]
            if not _eqz(other):
                return self._conflict("covariance taken over a coordinate axis", e)
            return CT("arr", (k, k))
        if name in ("numpy.diag",):
            if a0.kind == "arr" and len(a0.axes) == 1:
                k = a0.axes[0]
                return CT("arr", (None, None) if k is None else (k / 2, k / 2))
            if a0.kind == "arr" and len(a0.axes) == 2:
                x, y = a0.axes
                return CT("arr", (None if (x is None and y is None) else (x or 0) + (y or 0),))
            return a0
        if name in ("numpy.eye", "numpy.identity"):
            return co(0, 0)
        if name in ("numpy.trace",):
            if a0.kind == "arr" and len(a0.axes) == 2:
                s = (a0.axes[0] or Fraction(0)) + (a0.axes[1] or Fraction(0))
                if s != 0:
                    return self._conflict(f"trace of a matrix whose diagonal scales like d_i**{s}: variances of different coordinates (different units) are added", e)
                return INVC
            return a0 if a0.kind != "arr" else self._unknown("trace of a non-matrix", e)
        if name in ("numpy.linalg.inv", "numpy.linalg.pinv"):
            if a0.kind == "arr" and len(a0.axes) == 2:
                x, y = a0.axes
                return CT("arr", (None if y is None else -y, None if x is None else -x))
            return a0
        if name in ("numpy.linalg.solve", "scipy.linalg.solve") and len(args) >= 2:
            A, B = args[0], args[1]
            if A.kind == "arr" and B.kind == "arr" and len(A.axes) == 2 and B.axes:
                if (A.axes[0] or Fraction(0)) != (B.axes[0] or Fraction(0)):
                    return self._conflict(f"solve(A, B) with rows of A scaling like d_i**{A.axes[0]} and rows of B like d_i**{B.axes[0]}", e)
                return CT("arr", ((None if A.axes[1] is None else -A.axes[1]),) + B.axes[1:])
            return A if A.kind != "arr" else B
        if name in ("numpy.linalg.cholesky",):
            if a0.kind == "arr" and len(a0.axes) == 2 and a0.axes[0] == a0.axes[1]:
                return CT("arr", (a0.axes[0], Fraction(0) if a0.axes[0] is not None else None))
            return a0 if a0.kind != "arr" else self._unknown("cholesky", e)
        if name in ("numpy.dot", "numpy.matmul") and len(args) >= 2:
            return self._matmul(args[0], args[1], e)
        if name in ("numpy.outer",) and len(args) >= 2 and args[0].kind == "arr" and args[1].kind == "arr":
            return CT("arr", args[0].axes[-1:] + args[1].axes[-1:])
        if name in ("numpy.array", "numpy.asarray", "numpy.copy", "numpy.abs", "numpy.atleast_1d", "numpy.atleast_2d", "numpy.squeeze", "numpy.nan_to_num", "builtins.abs", "builtins.float",
                    "numpy.float64", "numpy.sort", "numpy.real", "numpy.ascontiguousarray"):
            return a0
        if name in ("numpy.transpose",):
            return CT("arr", tuple(reversed(a0.axes))) if a0.kind == "arr" else a0
        if name in ("numpy.sqrt",):
            return CT("arr", tuple(None if a is None else a / 2 for a in a0.axes)) if a0.kind == "arr" else a0
        if name in ("numpy.square",):
            return CT("arr", tuple(None if a is None else a * 2 for a in a0.axes)) if a0.kind == "arr" else a0
        if name in ("numpy.log", "numpy.exp", "numpy.log1p", "numpy.expm1", "scipy.special.psi", "scipy.special.digamma", "scipy.special.gammaln", "numpy.tanh", "math.log", "math.exp",
                    "numpy.isfinite", "numpy.isnan", "numpy.isinf"):
            if a0.scaled:
                if name.split(".")[-1] in ("isfinite", "isnan", "isinf"):
                    return CT("arr", tuple(None if _eqz(a) else Fraction(0) for a in a0.axes))
                return self._conflict(f"{name.split('.')[-1]} of a quantity that scales with the coordinates", e)
            return a0
        if name in ("numpy.clip", "numpy.maximum", "numpy.minimum") and args:
            out = args[0]
            for b in args[1:]:
                out = self._elementwise(out, b, ast.Add(), e)
                if out.kind != "arr":
                    return out
            return out
        if name in ("numpy.allclose", "numpy.isclose", "numpy.array_equal") and len(args) >= 2:
            atol = next((k.value for k in e.keywords if k.arg == "atol"), None)
            if any(a.scaled for a in args[:2]) and not (isinstance(atol, ast.Constant) and atol.value in (0, 0.0)):
                return self._conflict("closeness test with an absolute tolerance on a quantity that scales with the coordinates", e)
            return INVC
        if name in ("numpy.linalg.det", "numpy.linalg.slogdet", "numpy.linalg.eigh", "numpy.linalg.eigvalsh", "numpy.linalg.svd", "numpy.linalg.norm", "numpy.linalg.eigvals") and a0.scaled:
            if name.endswith(("eigh", "eigvalsh", "svd", "norm", "eigvals")):
                return self._conflict(f"{name.split('.')[-1]} of a matrix whose entries carry per-coordinate units: the spectrum mixes coordinates", e)
            return self._unknown(name, e)
        if name in ("numpy.arange", "numpy.flatnonzero", "numpy.argsort", "numpy.nonzero", "numpy.unique"):
            return CT("arr", (None,))
        if name in ("builtins.len", "builtins.range", "builtins.int", "builtins.print", "builtins.isinstance", "numpy.arange", "numpy.ones", "numpy.zeros", "numpy.empty", "numpy.linspace",
                    "numpy.linalg.matrix_rank", "scipy.optimize.bisect", "scipy.optimize.brentq", "scipy.optimize.brenth", "builtins.min", "builtins.max", "builtins.bool", "numpy.shape",
                    "numpy.any", "numpy.all", "numpy.argmax", "numpy.argmin", "numpy.argsort", "numpy.where"):
            if name in ("builtins.min", "builtins.max") and any(a.scaled for a in args):
                return self._unknown(name, e)
            # callables handed to a root finder are analysed at their own call sites
            return INVC
        if name.startswith("numpy.random."):
            # draws with a size are index / noise vectors (one non-coordinate axis): u[idx] keeps the sample axis
            has_size = any(k.arg == "size" for k in e.keywords) or (name.endswith((".choice", ".randint", ".permutation")) and len(e.args) >= 2) or name.endswith(".permutation")
            return CT("arr", (None,)) if has_size else INVC
        if any(a.scaled for a in args):
            return self._unknown(f"call {name}", e)
        return INVC
