"""A7 (scale part): homogeneity-degree typing under  weights -> s * weights.

Every value gets a degree k (it scales like s**k), a flag `norm` (sums to one),
or is Bool / Unknown / Conflict.  A function is scale-invariant when its
returns have degree 0 and no Conflict occurs.  Intermediates of |degree| >= 2
are reported as an overflow hazard (powers of un-normalised weights).
"""
from __future__ import annotations

import ast
from fractions import Fraction
from typing import Callable, Dict, List, Optional, Tuple

from .model import dotted, norm_text, ufunc_as_operator


class T:
    __slots__ = ("kind", "k", "norm", "why", "node")

    def __init__(self, kind: str, k=0, norm=False, why="", node=None):
        self.kind = kind  # 'deg' | 'unknown' | 'conflict' | 'tuple'
        self.k = Fraction(k) if kind == "deg" else k
        self.norm = norm
        self.why = why
        self.node = node

    def __repr__(self):
        if self.kind == "deg":
            return f"Deg({self.k}{', norm' if self.norm else ''})"
        if self.kind == "tuple":
            return f"Tuple{self.k!r}"
        return f"{self.kind.capitalize()}({self.why})"


INV = T("deg", 0)


def deg(k, norm=False):
    return T("deg", k, norm)


SAME_DEGREE = {"numpy.sum", "numpy.max", "numpy.min", "numpy.mean", "numpy.median", "numpy.percentile", "numpy.quantile", "numpy.cumsum", "numpy.abs", "numpy.asarray",
               "numpy.array", "numpy.copy", "numpy.amax", "numpy.amin", "numpy.sort", "numpy.squeeze", "numpy.atleast_1d", "numpy.nan_to_num", "numpy.trace", "numpy.diag",
               "numpy.average", "builtins.sum", "builtins.max", "builtins.min", "builtins.abs", "builtins.float", "numpy.float64", "numpy.transpose", "numpy.ravel"}
DEGREE_ZERO = {"numpy.linspace", "numpy.arange", "builtins.len", "builtins.range", "numpy.ones", "numpy.zeros", "numpy.eye", "numpy.empty", "numpy.ones_like",
               "numpy.zeros_like", "numpy.linalg.matrix_rank", "numpy.isfinite", "numpy.isinf", "numpy.isnan", "numpy.argsort", "numpy.argmax", "numpy.argmin", "numpy.where",
               "numpy.any", "numpy.all", "numpy.shape", "numpy.size", "builtins.int", "builtins.isinstance", "builtins.print"}


class DegreeInterp:
    def __init__(self, ext_name: Callable[[ast.Call], Optional[str]], weight_params=("weights", "w"), summaries: Optional[Dict[str, Callable]] = None,
                 internal: Optional[Callable[[ast.Call], Optional[Tuple[ast.FunctionDef, Callable, bool]]]] = None, depth: int = 0, extra_degrees: Optional[Dict[str, object]] = None):
        """internal(call) -> (callee def, ext_name for the callee, is_method) lets
        calls of library functions be interpreted by inlining (depth <= 4).
        extra_degrees: {canonical external name: function(args) -> T}."""
        self.ext_name = ext_name
        self.weight_params = set(weight_params)
        self.conflicts: List[T] = []
        self.hazards: List[Tuple[ast.AST, T]] = []
        self.unknowns: List[T] = []
        self.summaries = summaries or {}
        self.internal = internal
        self.depth = depth
        self.extra = extra_degrees or {}

    # ------------------------------------------------------------------
    def run(self, fn: ast.FunctionDef, arg_types: Optional[Dict[str, T]] = None) -> List[Tuple[ast.Return, T]]:
        env: Dict[str, T] = {}
        for a in fn.args.posonlyargs + fn.args.args + fn.args.kwonlyargs:
            if arg_types and a.arg in arg_types:
                env[a.arg] = arg_types[a.arg]
            elif a.arg in self.weight_params:
                env[a.arg] = deg(1)
            else:
                env[a.arg] = INV
        rets: List[Tuple[ast.Return, T]] = []
        # two passes so that loop-carried definitions stabilise
        for _ in range(2):
            rets = []
            self._block(fn.body, env, rets)
        return rets

    def _block(self, stmts, env, rets):
        for s in stmts:
            self._stmt(s, env, rets)

    def _stmt(self, s, env, rets):
        if isinstance(s, ast.Assign):
            v = self.eval(s.value, env)
            for t in s.targets:
                self._bind(t, v, env)
        elif isinstance(s, ast.AugAssign):
            fake = ast.BinOp(left=s.target, op=s.op, right=s.value)
            ast.copy_location(fake, s)
            v = self.eval(fake, env)
            if isinstance(s.op, ast.Div) and isinstance(s.value, ast.Call) and (self.ext_name(s.value) or "") in ("numpy.sum", "builtins.sum") and s.value.args and norm_text(s.value.args[0]) == norm_text(s.target):
                v = deg(0, norm=True)
            self._bind(s.target, v, env)
        elif isinstance(s, ast.Return):
            rets.append((s, self.eval(s.value, env) if s.value is not None else INV))
        elif isinstance(s, ast.If):
            self.eval(s.test, env)
            # `if w is None:` on a supplied weight vector: the None branch is not
            # taken when weights are given (the typing assumption), so follow the other
            t = s.test
            if isinstance(t, ast.Compare) and len(t.ops) == 1 and isinstance(t.ops[0], (ast.Is, ast.IsNot)) and isinstance(t.comparators[0], ast.Constant) and t.comparators[0].value is None \
                    and isinstance(t.left, ast.Name) and env.get(t.left.id) is not None and env[t.left.id].kind == "deg" and env[t.left.id].k != 0:
                taken = s.orelse if isinstance(t.ops[0], ast.Is) else s.body
                self._block(taken, env, rets)
                return
            e1, e2 = dict(env), dict(env)
            self._block(s.body, e1, rets)
            self._block(s.orelse, e2, rets)
            for k in set(e1) | set(e2):
                a, b = e1.get(k), e2.get(k)
                env[k] = self._join(a, b)
        elif isinstance(s, (ast.While, ast.For)):
            if isinstance(s, ast.While):
                self.eval(s.test, env)
            else:
                self._bind(s.target, self.eval(s.iter, env), env)
            self._block(s.body, env, rets)
            self._block(s.body, env, rets)
        elif isinstance(s, ast.Try):
            self._block(s.body, env, rets)
            for h in s.handlers:
                self._block(h.body, dict(env), rets)
        elif isinstance(s, ast.Expr):
            self.eval(s.value, env)

    def _join(self, a: Optional[T], b: Optional[T]) -> T:
        if a is None:
            return b
        if b is None:
            return a
        if a.kind == "deg" and b.kind == "deg":
            if a.k == b.k:
                return deg(a.k, a.norm and b.norm)
            # e.g. `if w is None: w = ones(n)`: only a normalisation x / sum(x) may consume this value
            return T("multi", why=f"degree {a.k} on one branch, {b.k} on the other")
        if a.kind == "multi" or b.kind == "multi":
            return a if a.kind == "multi" else b
        if a.kind in ("conflict",):
            return a
        if b.kind in ("conflict",):
            return b
        return a if a.kind == "unknown" else b

    def _join_ret(self, a: T, b: T) -> T:
        if a.kind == "tuple" and b.kind == "tuple" and len(a.k) == len(b.k):
            return T("tuple", [self._join_ret(x, y) for x, y in zip(a.k, b.k)])
        return self._join(a, b)

    def _bind(self, t, v: T, env):
        if isinstance(t, ast.Name):
            env[t.id] = v
        elif isinstance(t, (ast.Tuple, ast.List)):
            for i, e in enumerate(t.elts):
                if v.kind == "tuple" and i < len(v.k):
                    self._bind(e, v.k[i], env)
                else:
                    self._bind(e, v, env)
        elif isinstance(t, ast.Subscript) and isinstance(t.value, ast.Name):
            cur = env.get(t.value.id)
            env[t.value.id] = self._join(cur, v) if cur is not None else v

    def _conflict(self, why, node) -> T:
        t = T("conflict", why=why, node=node)
        self.conflicts.append(t)
        return t

    def _unknown(self, why, node) -> T:
        t = T("unknown", why=why, node=node)
        self.unknowns.append(t)
        return t

    def _note(self, node, t: T) -> T:
        if t.kind == "deg" and abs(t.k) >= 2:
            self.hazards.append((node, t))
        return t

    # ------------------------------------------------------------------
    def eval(self, e: ast.expr, env: Dict[str, T]) -> T:
        if e is None or isinstance(e, ast.Constant):
            return INV
        if isinstance(e, ast.Name):
            if e.id in env:
                return env[e.id]
            return INV  # globals / module constants
        if isinstance(e, ast.Attribute):
            if e.attr in ("shape", "size", "ndim", "dtype", "newaxis", "inf", "pi"):
                return INV
            if e.attr == "T":
                return self.eval(e.value, env)
            d = dotted(e)
            if d.startswith("self.") or d.startswith("np."):
                return INV
            return self.eval(e.value, env)
        if isinstance(e, ast.Tuple):
            return T("tuple", [self.eval(x, env) for x in e.elts])
        if isinstance(e, (ast.List,)):
            ts = [self.eval(x, env) for x in e.elts]
            out = INV
            for t in ts:
                out = self._join(out, t) if out is not INV else t
            return out
        if isinstance(e, ast.Subscript):
            b = self.eval(e.value, env)
            if isinstance(e.slice, (ast.Name, ast.Call, ast.Compare, ast.BinOp, ast.Subscript)):
                i = self.eval(e.slice, env)
                if i.kind == "deg" and i.k != 0:
                    return self._conflict("index depends on the weight scale", e)
            if b.kind == "tuple" and isinstance(e.slice, ast.Constant) and isinstance(e.slice.value, int) and e.slice.value < len(b.k):
                return b.k[e.slice.value]
            if b.kind == "deg":
                return deg(b.k, False)
            return b
        if isinstance(e, ast.UnaryOp):
            return self.eval(e.operand, env)
        if isinstance(e, ast.BoolOp):
            for v in e.values:
                self.eval(v, env)
            return INV
        if isinstance(e, ast.Compare):
            ts = [self.eval(e.left, env)] + [self.eval(c, env) for c in e.comparators]
            if all(isinstance(o, (ast.Is, ast.IsNot, ast.In, ast.NotIn)) for o in e.ops):
                return INV
            ds = [t for t in ts if t.kind == "deg"]
            if len(ds) == len(ts) and len({t.k for t in ds}) > 1:
                return self._conflict(f"comparison of values of degree {[str(t.k) for t in ds]} in the weight scale: the outcome changes when the weights are rescaled", e)
            if any(t.kind == "conflict" for t in ts):
                return next(t for t in ts if t.kind == "conflict")
            return INV
        if isinstance(e, ast.IfExp):
            self.eval(e.test, env)
            return self._join(self.eval(e.body, env), self.eval(e.orelse, env))
        if isinstance(e, ast.BinOp):
            l, r = self.eval(e.left, env), self.eval(e.right, env)
            if isinstance(e.op, ast.Div) and isinstance(e.right, ast.Call) and (self.ext_name(e.right) or "") in ("numpy.sum", "builtins.sum") and e.right.args and norm_text(e.right.args[0]) == norm_text(e.left) and l.kind in ("deg", "multi"):
                return deg(0, norm=True)
            for t in (l, r):
                if t.kind in ("conflict", "unknown"):
                    return t
            if l.kind == "multi" or r.kind == "multi":
                return self._conflict("arithmetic on a value whose weight-scale degree differs between branches (" + (l.why or r.why) + ")", e)
            if l.kind != "deg" or r.kind != "deg":
                return self._unknown("non-scalar operand", e)
            op = e.op
            if isinstance(op, (ast.Mult, ast.MatMult)):
                return self._note(e, deg(l.k + r.k))
            if isinstance(op, (ast.Div, ast.FloorDiv)):
                # x / sum(x): normalisation
                if isinstance(e.right, ast.Call) and (self.ext_name(e.right) or "") in ("numpy.sum", "builtins.sum") and e.right.args and norm_text(e.right.args[0]) == norm_text(e.left):
                    return deg(0, norm=True)
                return self._note(e, deg(l.k - r.k))
            if isinstance(op, ast.Pow):
                if isinstance(e.right, ast.Constant) and isinstance(e.right.value, (int, float)):
                    return self._note(e, deg(l.k * Fraction(e.right.value).limit_denominator(1000)))
                if r.k == 0 and l.k == 0:
                    return INV
                return self._unknown("non-constant exponent", e)
            if isinstance(op, (ast.Add, ast.Sub)):
                if l.k == r.k:
                    return deg(l.k)
                return self._conflict(f"sum of values of degree {l.k} and {r.k} in the weight scale", e)
            if isinstance(op, ast.Mod):
                return deg(l.k)
            return self._unknown(type(op).__name__, e)
        if isinstance(e, ast.Call):
            op_ = ufunc_as_operator(self.ext_name(e), e)
            if op_ is not None:
                return self.eval(op_, env)
            return self._call(e, env)
        if isinstance(e, (ast.ListComp, ast.GeneratorExp)):
            env2 = dict(env)
            for g in e.generators:
                self._bind(g.target, self.eval(g.iter, env2), env2)
            return self.eval(e.elt, env2)
        return self._unknown(type(e).__name__, e)

    def _call(self, e: ast.Call, env) -> T:
        name = self.ext_name(e) or dotted(e.func)
        args = [self.eval(a, env) for a in e.args]
        for k in e.keywords:
            self.eval(k.value, env)
        if name in self.summaries:
            return self.summaries[name](self, e, args)
        if name in self.extra:
            return self.extra[name](self, e, args)
        if self.internal is not None and self.depth < 4:
            tgt = self.internal(e)
            if tgt is not None:
                fn, ext2, is_method = tgt
                params = [a.arg for a in fn.args.posonlyargs + fn.args.args]
                if is_method and params and params[0] in ("self", "cls"):
                    params = params[1:]
                binding: Dict[str, T] = {}
                for pname, a in zip(params, args):
                    binding[pname] = a
                for k in e.keywords:
                    if k.arg:
                        binding[k.arg] = self.eval(k.value, env)
                sub = type(self)(ext2, weight_params=(), summaries=self.summaries, internal=self.internal, depth=self.depth + 1, extra_degrees=self.extra)
                rets = sub.run(fn, binding)
                self.conflicts += sub.conflicts
                self.hazards += sub.hazards
                self.unknowns += sub.unknowns
                out = None
                for (_, t) in rets:
                    out = t if out is None else self._join_ret(out, t)
                return out if out is not None else INV
        if isinstance(e.func, ast.Attribute) and not name.startswith(("numpy.", "builtins.", "scipy.")):
            base = self.eval(e.func.value, env)
            m = e.func.attr
            if m in ("sum", "max", "min", "mean", "copy", "astype", "reshape", "ravel", "flatten", "squeeze", "cumsum", "T", "transpose"):
                return deg(base.k) if base.kind == "deg" else base
            if m in ("dot",):
                if base.kind == "deg" and args and args[0].kind == "deg":
                    return self._note(e, deg(base.k + args[0].k))
        if name in ("numpy.allclose", "numpy.isclose") and len(args) >= 2:
            # |a - b| <= atol + rtol*|b| with a non-zero default atol: an absolute tolerance against a scaled quantity
            atol = next((k.value for k in e.keywords if k.arg == "atol"), e.args[3] if len(e.args) > 3 else None)
            atol_zero = isinstance(atol, ast.Constant) and atol.value in (0, 0.0)
            ds = [a for a in args[:2] if a.kind == "deg"]
            if len(ds) == 2 and ds[0].k != ds[1].k:
                return self._conflict(f"closeness test between values of degree {ds[0].k} and {ds[1].k}", e)
            if ds and any(a.k != 0 for a in ds) and not atol_zero:
                return self._conflict(f"{name.split('.')[-1]} with an absolute tolerance (atol default 1e-8) applied to a quantity of degree {ds[0].k}: the outcome changes when "
                                      f"the values are rescaled", e)
            return INV
        if name == "numpy.full_like" and len(e.args) >= 2 and args:
            fill = e.args[1]
            ftxt = norm_text(fill).lstrip("-")
            if ftxt in ("np.inf", "numpy.inf", "inf", "0", "0.0", "np.nan", "float('inf')", "math.inf"):
                return deg(args[0].k) if args[0].kind == "deg" else args[0]  # 0 / inf / nan are homogeneous of every degree
            return args[1]
        if name == "numpy.full" and len(args) >= 2:
            return args[1]
        if name in SAME_DEGREE and args:
            a = args[0]
            return deg(a.k) if a.kind == "deg" else a
        if any(a.kind == "multi" for a in args):
            return self._conflict("use of a value whose weight-scale degree differs between branches", e)
        if name in DEGREE_ZERO:
            return INV
        if name in ("numpy.sqrt",) and args and args[0].kind == "deg":
            return deg(args[0].k / 2)
        if name in ("numpy.dot", "numpy.matmul", "numpy.outer", "numpy.multiply", "numpy.einsum"):
            ds = [a for a in args if a.kind == "deg"]
            if len(ds) == len([a for a in args if a.kind != "tuple"]):
                return self._note(e, deg(sum((a.k for a in ds), Fraction(0))))
        if name in ("numpy.linalg.inv", "numpy.linalg.pinv") and args and args[0].kind == "deg":
            return deg(-args[0].k)
        if name in ("numpy.linalg.det",) and args:
            return self._unknown("determinant (degree depends on the dimension)", e)
        if name in ("numpy.clip", "numpy.minimum", "numpy.maximum") and args:
            ds = [a for a in args if a.kind == "deg"]
            if len(ds) == len(args) and len({a.k for a in ds}) == 1:
                return deg(ds[0].k)
            if len(ds) == len(args):
                return self._conflict(f"{name.split('.')[-1]} of degree-{ds[0].k} value against an absolute bound", e)
        if name in ("numpy.exp", "numpy.log", "numpy.log1p", "numpy.expm1") and args:
            a = args[0]
            if a.kind == "deg" and a.k == 0:
                return INV
            if a.kind == "deg":
                return self._conflict(f"{name.split('.')[-1]} of a value of degree {a.k} in the weight scale", e)
            return a
        if name.startswith("numpy.random."):
            return INV
        return self._unknown(f"call {name}", e)
