import sys, os; sys.path.insert(0, os.getcwd())
"""C05 demo 1: ESS floor after an advance, with a non-integer ESS target.

Configuration: n_particles=33, ess_ratio=1.5  ->  configured target ESS = 49.5
(a valid configuration whose product is not an integer).

We (a) drive Reweighter.run() on a synthetic warm-up history and (b) run the
public Sampler and inspect the recorded history. Whenever beta advances, the
ESS of the persistent pool at the new beta (recomputed here independently from
the pool) must be >= ess_ratio * n_particles.
"""
import numpy as np
import tempest
from tempest import Sampler
from tempest.state_manager import StateManager
from tempest.steps.reweight import Reweighter

print("tempest imported from", tempest.__file__)

N_PART = 33
ESS_RATIO = 1.5
TARGET = ESS_RATIO * N_PART  # 49.5


def ref_weights(betas, logzs, logls, beta):
    """Independent reference: normalised pool weights at inverse temperature beta."""
    betas = np.asarray(betas, float)
    logzs = np.asarray(logzs, float)
    n = np.array([len(l) for l in logls], float)
    ll = np.concatenate(logls)
    terms = ll[:, None] * betas[None, :] - logzs[None, :] + np.log(n / n.sum())[None, :]
    m = terms.max(axis=1)
    logmix = m + np.log(np.exp(terms - m[:, None]).sum(axis=1))
    lw = beta * ll - logmix
    w = np.exp(lw - lw.max())
    return w / w.sum()


def ref_ess(betas, logzs, logls, beta):
    w = ref_weights(betas, logzs, logls, beta)
    return 1.0 / np.sum(w**2)


failures = []

# ---------------------------------------------------------------- part (a)
rng = np.random.default_rng(12345)
state = StateManager(n_dim=2)
state.update_current({"iter": 0, "beta": 0.0, "logz": 0.0, "calls": 0})
logls = []
for t in range(3):  # three warm-up batches drawn at beta=0
    u = rng.random((N_PART, 2))
    x = 8 * u - 4
    logl = -0.5 * np.sum(x**2, axis=1)
    logls.append(logl)
    state.update_current(
        {"u": u, "x": x, "logl": logl, "beta": 0.0, "logz": 0.0, "iter": t + 1,
         "ess": TARGET}
    )
    state.commit_current_to_history()

rw = Reweighter(state=state, pbar=None, n_particles=N_PART, ess_ratio=ESS_RATIO)
w = rw.run()
beta = state.get_current("beta")
ess_rec = state.get_current("ess")
ess_ref = ref_ess([0, 0, 0], [0, 0, 0], logls, beta)
print(f"[synthetic] beta={beta:.6f} recorded ESS={ess_rec:.4f} reference ESS={ess_ref:.4f} "
      f"configured target={TARGET}")
if beta > 0.0 and ess_ref < TARGET * (1 - 1e-9):
    failures.append(f"synthetic history: advanced to beta={beta:.6f} with ESS={ess_ref:.4f} < {TARGET}")

# ---------------------------------------------------------------- part (b)
def prior_transform(u):
    return 10.0 * u - 5.0


def log_like(x):
    return -0.5 * np.sum(x**2, axis=1)


s = Sampler(prior_transform, log_like, n_dim=2, n_particles=N_PART, ess_ratio=ESS_RATIO,
            vectorize=True, clustering=False, random_state=3)
s.run(n_total=64, progress=False)
betas = [float(b) for b in s.state.get_history("beta")]
logzs = [float(z) for z in s.state.get_history("logz")]
esss = [float(e) for e in s.state.get_history("ess")]
logls = [s.state.get_history("logl", index=i) for i in range(len(betas))]
for t in range(1, len(betas)):
    if betas[t] > betas[t - 1]:
        e = ref_ess(betas[:t], logzs[:t], logls[:t], betas[t])
        flag = "" if e >= TARGET * (1 - 1e-9) else "   <-- below configured target"
        print(f"[sampler] iter {t + 1}: beta {betas[t - 1]:.5f} -> {betas[t]:.5f}  "
              f"recorded ESS={esss[t]:.4f} reference ESS={e:.4f}{flag}")
        if e < TARGET * (1 - 1e-9):
            failures.append(f"sampler iter {t + 1}: beta={betas[t]:.5f} ESS={e:.4f} < {TARGET}")

if failures:
    print("PROPERTY VIOLATED (ESS floor after an advance):")
    for f in failures:
        print("  -", f)
    sys.exit(1)
print("OK: every advance landed on a temperature with pool ESS >= ess_ratio * n_particles")
