#!/usr/bin/env python3
"""Markdown tables of the seeded changes (from seeded/*/meta.json as last re-checked)."""
import glob
import json
import os
import re
import sys

ROOT = os.path.join(os.path.dirname(os.path.abspath(__file__)), "..", "seeded")


def short(s, n=62):
    s = re.sub(r"\s+", " ", s or "").strip()
    return s if len(s) <= n else s[: n - 1].rstrip() + "…"


def rows(suffix):
    out = []
    for d in sorted(glob.glob(os.path.join(ROOT, f"C??-{suffix}?"))):
        m = json.load(open(os.path.join(d, "meta.json")))
        v = m.get("verification", {})
        rules = v.get("rules_fired") or []
        errs = v.get("analysis_errors") or []
        res = ", ".join(rules) if rules else ("undecided (exit 2): " + ", ".join(errs) if errs else "not detected")
        out.append((os.path.basename(d), short(m.get("summary", "")), res))
    return out


def table(suffix):
    r = rows(suffix)
    print("| seed | change | rules that fire |")
    print("|---|---|---|")
    for (i, s, res) in r:
        print(f"| {i} | {s} | {res} |")


if __name__ == "__main__":
    table(sys.argv[1] if len(sys.argv) > 1 else "b")
