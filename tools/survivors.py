#!/usr/bin/env python3
"""List generic-mutant survivors of one property with the mutated source line
(development aid: look for property-relevant mutants the rules do not see)."""
import ast
import concurrent.futures as cf
import difflib
import importlib
import os
import sys

sys.path.insert(0, os.path.join(os.path.dirname(os.path.abspath(__file__)), ".."))
from sa import engine, selftest  # noqa: E402
from sa.model import Program  # noqa: E402


def main():
    prop = sys.argv[1]
    only = sys.argv[2:]  # function short names
    mod = importlib.import_module(f"sa.rules.{prop.lower()}")
    prog = Program(None)
    ctx = engine.Context(prog)
    rep = engine.Reporter(mod.PROP)
    mod.run(ctx, rep)
    funcs = {}
    for o in rep.obligations:
        if o.func:
            for fi in prog.functions.values():
                if fi.short == o.func and fi.parent is None and (not only or fi.short in only):
                    funcs[fi.qualname] = fi
    muts = list(selftest._generic_mutants(prog, list(funcs.values())))
    base = {(o.rule, o.func, o.key) for o in rep.obligations if not o.ok}
    jobs = [(mod.__name__, name, rel, dp, idx, kind, prog.sources, base) for (name, rel, dp, idx, kind) in muts]
    with cf.ProcessPoolExecutor(max_workers=16) as ex:
        outs = list(ex.map(selftest._adequacy_one, jobs, chunksize=4))
    stat = {}
    for (job, (name, st)) in zip(jobs, outs):
        stat[st] = stat.get(st, 0) + 1
        if st != "survived":
            continue
        _, name, rel, dp, idx, kind, sources, _ = job
        new = selftest._apply_generic(sources[rel], dp, idx, kind)
        old = ast.unparse(ast.parse(sources[rel])) + "\n"
        d = [l for l in difflib.unified_diff(old.splitlines(), new.splitlines(), lineterm="", n=0) if l.startswith(("+", "-")) and not l.startswith(("+++", "---"))]
        print(name, "|", " ".join(x.strip() for x in d)[:230])
    print(stat)


if __name__ == "__main__":
    main()
