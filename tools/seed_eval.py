#!/usr/bin/env python3
"""Development helper (not a registered check): confirm a candidate seeded
change and record which checks catch it.

  seed_eval.py confirm <src_dir> <seed_id>   # src_dir has patch.diff demo.py meta.json
      - scratch worktree of /repo HEAD: apply patch, run the suite, run the demo (must fail),
        revert, run the demo (must pass); then run every check against the patched scratch tree;
        store under /verif/seeded/<seed_id>/ with the results in meta.json
  seed_eval.py recheck [<seed_id> ...]       # re-run the checks for stored seeds
"""
import json, os, shutil, subprocess, sys, tempfile, time

VERIF = os.environ.get("SEED_EVAL_VERIF", "/verif")
DESELECT = ["tests/test_sample_method.py::SampleMethodTestCase::test_sample_with_save_every",
            "tests/test_sampler_features.py::SamplerFeaturesTestCase::test_custom_output_dir",
            "tests/test_state.py::SamplerStateTestCase::test_resume"]


def sh(cmd, cwd=None, timeout=1800):
    p = subprocess.run(cmd, shell=True, cwd=cwd, capture_output=True, text=True, timeout=timeout)
    return p.returncode, p.stdout + p.stderr


def make_tree():
    d = tempfile.mkdtemp(prefix="seedverify_", dir="/tmp")
    os.rmdir(d)
    rc, out = sh(f"git -C /repo worktree add --detach {d} HEAD -q")
    if rc:
        raise SystemExit(out)
    return d


def drop_tree(d):
    sh(f"git -C /repo worktree remove --force {d}")
    shutil.rmtree(d, ignore_errors=True)


def run_checks(tree):
    rc, out = sh(f"SA_NO_SELFTEST=1 python3-vt {VERIF}/sa/cli.py all --tier quick --repo {tree}")
    caught = sorted({l.split("property=")[1].split()[0] for l in out.splitlines() if l.startswith("VIOLATION")})
    errors = sorted({l.split("property=")[1].split()[0] for l in out.splitlines() if l.startswith("ANALYSIS-ERROR")})
    rules = sorted({l.split(": ")[1] for l in out.splitlines() if ": C" in l and not l.startswith(("VIOLATION", "KNOWN", "ANALYSIS")) and len(l.split(": ")) > 2})
    return caught, errors, rules, out


def confirm(src, sid, skip_suite=False):
    tree = make_tree()
    res = {}
    try:
        rc, out = sh(f"git apply {src}/patch.diff", cwd=tree)
        if rc:
            print("patch does not apply:", out)
            return None
        if not skip_suite:
            t = time.time()
            rc, out = sh("/venv/bin/python -m pytest -q -p no:cacheprovider --timeout=900 -q " + " ".join(f"--deselect {d}" for d in DESELECT), cwd=tree)
            res["suite_with_patch"] = "passed" if rc == 0 else "FAILED"
            res["suite_tail"] = out.strip().splitlines()[-1] if out.strip() else ""
            print("suite:", res["suite_with_patch"], res["suite_tail"], f"{time.time()-t:.0f}s")
        shutil.copy(f"{src}/demo.py", f"{tree}/_demo.py")
        rc, out = sh("/venv/bin/python _demo.py", cwd=tree, timeout=900)
        res["demo_with_patch_rc"] = rc
        res["demo_with_patch_tail"] = out.strip().splitlines()[-3:]
        print("demo with patch rc=", rc)
        caught, errors, rules, out = run_checks(tree)
        res["caught_by"] = caught
        res["analysis_errors"] = errors
        res["rules_fired"] = rules
        print("caught by:", caught, "errors:", errors, "rules:", rules)
        sh("git checkout -- tempest", cwd=tree)
        rc, out = sh("/venv/bin/python _demo.py", cwd=tree, timeout=900)
        res["demo_without_patch_rc"] = rc
        print("demo without patch rc=", rc)
    finally:
        drop_tree(tree)
    ok = res.get("demo_with_patch_rc", 0) != 0 and res.get("demo_without_patch_rc", 1) == 0 and (skip_suite or res.get("suite_with_patch") == "passed")
    res["confirmed"] = ok
    if ok:
        dst = f"{VERIF}/seeded/{sid}"
        os.makedirs(dst, exist_ok=True)
        shutil.copy(f"{src}/patch.diff", dst)
        shutil.copy(f"{src}/demo.py", dst)
        meta = json.load(open(f"{src}/meta.json")) if os.path.exists(f"{src}/meta.json") else {}
        meta["verification"] = res
        meta["what_was_run"] = "scratch worktree of /repo HEAD: git apply patch.diff; pytest (3 always-failing tests deselected); demo.py (non-zero); python3-vt /verif/sa/cli.py all --tier quick --repo <tree>; git checkout; demo.py (zero)"
        json.dump(meta, open(f"{dst}/meta.json", "w"), indent=1)
    print("CONFIRMED" if ok else "NOT CONFIRMED", sid)
    return res


def _recheck_chunk(ids):
    tree = make_tree()
    rows = []
    try:
        for sid in ids:
            d = f"{VERIF}/seeded/{sid}"
            if not os.path.exists(f"{d}/patch.diff"):
                continue
            sh("git checkout -- tempest", cwd=tree)
            rc, out = sh(f"git apply {d}/patch.diff", cwd=tree)
            if rc:
                rows.append((sid, "PATCH-FAILS", [], []))
                continue
            caught, errors, rules, out = run_checks(tree)
            meta = json.load(open(f"{d}/meta.json"))
            meta.setdefault("verification", {})["caught_by"] = caught
            meta["verification"]["analysis_errors"] = errors
            meta["verification"]["rules_fired"] = rules
            json.dump(meta, open(f"{d}/meta.json", "w"), indent=1)
            rows.append((sid, meta.get("property"), caught, errors, rules))
    finally:
        drop_tree(tree)
    return rows


def recheck(ids, jobs=8):
    from concurrent.futures import ProcessPoolExecutor
    ids = ids or sorted(os.listdir(f"{VERIF}/seeded"))
    ids = [i for i in ids if os.path.exists(f"{VERIF}/seeded/{i}/patch.diff")]
    chunks = [ids[k::jobs] for k in range(jobs) if ids[k::jobs]]
    rows = []
    with ProcessPoolExecutor(len(chunks) or 1) as ex:
        for r in ex.map(_recheck_chunk, chunks):
            rows.extend(r)
    rows.sort()
    for r in rows:
        print(*r)
    n = sum(1 for r in rows if r[2])
    print(f"caught {n}/{len(rows)}")


def benign(src, sid, skip_suite=False):
    """A behaviour-preserving refactoring: the suite must pass and every check must stay silent."""
    tree = make_tree()
    res = {}
    try:
        rc, out = sh(f"git apply {src}/patch.diff", cwd=tree)
        if rc:
            print("patch does not apply:", out)
            return None
        if not skip_suite:
            rc, out = sh("/venv/bin/python -m pytest -q -p no:cacheprovider --timeout=900 -q " + " ".join(f"--deselect {d}" for d in DESELECT), cwd=tree)
            res["suite_with_patch"] = "passed" if rc == 0 else "FAILED"
            print("suite:", res["suite_with_patch"])
        caught, errors, rules, out = run_checks(tree)
        res["violations_reported"] = caught
        res["analysis_errors"] = errors
        res["rules_fired"] = rules
        res["detail"] = [l for l in out.splitlines() if l.startswith(("ANALYSIS-ERROR",)) or (": C" in l and not l.startswith(("KNOWN", "VIOLATION")) and "obligations=" not in l)][:12]
        print("violations:", caught, "errors:", errors, rules)
        for l in res["detail"]:
            print("   ", l[:300])
    finally:
        drop_tree(tree)
    dst = f"{VERIF}/seeded/benign/{sid}"
    os.makedirs(dst, exist_ok=True)
    shutil.copy(f"{src}/patch.diff", dst)
    meta = json.load(open(f"{src}/meta.json")) if os.path.exists(f"{src}/meta.json") else {}
    meta["verification"] = res
    json.dump(meta, open(f"{dst}/meta.json", "w"), indent=1)
    print("SILENT" if not res.get("violations_reported") and not res.get("analysis_errors") else "NOISY", sid)
    return res


def _benign_chunk(ids):
    base = f"{VERIF}/seeded/benign"
    tree = make_tree()
    noisy = 0
    lines = []
    try:
        for sid in ids:
            d = f"{base}/{sid}"
            sh("git checkout -- tempest", cwd=tree)
            sh("git clean -fdq tempest", cwd=tree)
            rc, out = sh(f"git apply {d}/patch.diff", cwd=tree)
            if rc:
                lines.append(f"{sid} PATCH-FAILS")
                continue
            caught, errors, rules, out = run_checks(tree)
            meta = json.load(open(f"{d}/meta.json"))
            meta.setdefault("verification", {}).update({"violations_reported": caught, "analysis_errors": errors, "rules_fired": rules})
            json.dump(meta, open(f"{d}/meta.json", "w"), indent=1)
            lines.append(f"{sid} violations: {caught} errors: {errors} {rules}")
            noisy += bool(caught or errors)
    finally:
        drop_tree(tree)
    return noisy, lines


def recheck_benign(ids, jobs=8):
    from concurrent.futures import ProcessPoolExecutor
    base = f"{VERIF}/seeded/benign"
    ids = ids or sorted(os.listdir(base))
    chunks = [ids[k::jobs] for k in range(jobs) if ids[k::jobs]]
    noisy = 0
    lines = []
    with ProcessPoolExecutor(len(chunks) or 1) as ex:
        for n, ls in ex.map(_benign_chunk, chunks):
            noisy += n
            lines.extend(ls)
    for l in sorted(lines):
        print(l)
    print(f"noisy {noisy}/{len(ids)}")


if __name__ == "__main__":
    if sys.argv[1] == "confirm":
        confirm(sys.argv[2], sys.argv[3], skip_suite="--skip-suite" in sys.argv)
    elif sys.argv[1] == "recheck":
        recheck(sys.argv[2:])
    elif sys.argv[1] == "benign":
        benign(sys.argv[2], sys.argv[3], skip_suite="--skip-suite" in sys.argv)
    elif sys.argv[1] == "recheck-benign":
        recheck_benign(sys.argv[2:])
