#!/usr/bin/env python3
"""Runs the pinned baseline command of /root/.vp/BASELINE.json against /repo and
compares the passing set with BASELINE.stable_pass.  Development helper (not a
registered check)."""
import json, subprocess, sys, tempfile, os
import xml.etree.ElementTree as ET

base = json.load(open("/root/.vp/BASELINE.json"))
out = tempfile.mktemp(suffix=".xml", dir="/var/tmp")
cmd = base["cmd"].replace("<file>", out)
env = dict(os.environ)
env.pop("TEMPEST_VERIF", None)
p = subprocess.run(cmd, shell=True, capture_output=True, text=True, env=env)
passed = set()
failed = set()
for tc in ET.parse(out).getroot().iter("testcase"):
    name = f"{tc.get('classname')}::{tc.get('name')}"
    if any(ch.tag in ("failure", "error") for ch in tc):
        failed.add(name)
    elif any(ch.tag == "skipped" for ch in tc):
        pass
    else:
        passed.add(name)
os.remove(out)
stable = set(base["stable_pass"])
missing = sorted(stable - passed)
print(f"passed={len(passed)} failed={len(failed)} stable_missing={len(missing)}")
for m in missing:
    print("  MISSING", m)
print("failed:", sorted(failed))
sys.exit(1 if missing else 0)
