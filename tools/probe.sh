#!/bin/bash
# usage: tools/probe.sh <patch.diff> [props...]  -- apply to /repo, run checks (with normal-form details), undo
p=$1; shift
git -C /repo apply "$p" || exit 1
if [ $# -eq 0 ]; then
  SA_SHOW_NF=1 SA_NO_SELFTEST=1 python3-vt /verif/sa/cli.py all --tier quick 2>&1 | grep -E "^tempest|ERROR|NOTE|normal form" | cut -c1-360
else
  for q in "$@"; do SA_SHOW_NF=1 SA_NO_SELFTEST=1 python3-vt /verif/sa/cli.py check $q --tier quick 2>&1 | grep -E "^tempest|ERROR|NOTE|normal form|^C.. \[" | cut -c1-360; done
fi
git -C /repo checkout -- .
