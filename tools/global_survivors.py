#!/usr/bin/env python3
"""Generic AST mutants of every function of the package, run through ALL checks
(no self-tests): which mutants does no rule of any property report?
Development aid for finding blind spots; many survivors are crashes the suite
catches or behaviour-preserving edits.  Usage: global_survivors.py [module-substring ...]"""
import ast
import concurrent.futures as cf
import difflib
import importlib
import os
import sys
import time

sys.path.insert(0, os.path.join(os.path.dirname(os.path.abspath(__file__)), ".."))
from sa import engine, selftest  # noqa: E402
from sa.model import AnalysisError, Program  # noqa: E402

PROPS = ["C03", "C04", "C05", "C06", "C07", "C08", "C09", "C10", "C11", "C12", "C13", "C14", "C15", "C16", "C17", "C18", "C19", "C20"]


def verdict(sources):
    prog = Program(None, sources=sources)
    known = engine.load_known()
    viol, errs = [], []
    for p in PROPS:
        mod = importlib.import_module(f"sa.rules.{p.lower()}")
        try:
            ctx = engine.Context(prog)
            rep = engine.Reporter(mod.PROP)
            mod.run(ctx, rep)
            bad = [o for o in rep.obligations if not o.ok and engine.match_known(o, p, known) is None]
            if bad:
                viol.append(p + ":" + ",".join(sorted({o.rule for o in bad})))
            elif rep.errors:
                errs.append(p)
        except AnalysisError:
            errs.append(p)
        except Exception as e:  # noqa: BLE001
            errs.append(p + "!" + type(e).__name__)
    return viol, errs


def one(job):
    name, rel, dp, idx, kind, sources = job
    try:
        new = selftest._apply_generic(sources[rel], dp, idx, kind)
        if new is None:
            return (name, "n/a", "", "")
        try:
            compile(new, rel, "exec")
        except SyntaxError:
            return (name, "n/a", "", "")
        src2 = dict(sources)
        src2[rel] = new
        viol, errs = verdict(src2)
        old = ast.unparse(ast.parse(sources[rel])) + "\n"
        d = [l for l in difflib.unified_diff(old.splitlines(), new.splitlines(), lineterm="", n=0) if l.startswith(("+", "-")) and not l.startswith(("+++", "---"))]
        diff = " ".join(x.strip() for x in d)[:260]
        if viol:
            return (name, "killed", ";".join(viol), diff)
        if errs:
            return (name, "undecided", ",".join(errs), diff)
        return (name, "survived", "", diff)
    except Exception as e:  # noqa: BLE001
        return (name, "error", repr(e)[:100], "")


def main():
    filt = sys.argv[1:]
    prog = Program(None)
    funcs = [f for f in prog.functions.values() if f.parent is None and (not filt or any(s in f.qualname for s in filt))]
    muts = list(selftest._generic_mutants(prog, funcs))
    print(f"{len(funcs)} functions, {len(muts)} mutants", flush=True)
    jobs = [(name, rel, dp, idx, kind, prog.sources) for (name, rel, dp, idx, kind) in muts]
    t0 = time.time()
    stat = {}
    with cf.ProcessPoolExecutor(max_workers=16) as ex:
        for (name, st, info, diff) in ex.map(one, jobs, chunksize=2):
            stat[st] = stat.get(st, 0) + 1
            if st in ("survived", "undecided"):
                print(f"{st.upper():9s} {name} | {info} | {diff}", flush=True)
    print(stat, f"{time.time() - t0:.0f}s")


if __name__ == "__main__":
    main()
